package main

import (
	"context"
	"crypto/sha1"
	"encoding/json"
	"fmt"
	"os"
	"os/exec"
	"path/filepath"
	"sort"
	"strings"
	"sync"
	"sync/atomic"
	"time"

	"golang.org/x/tools/go/ssa"
)

func (V *Verifier) newX(fn *ssa.Function, key string, ct *Contract) *X {
	return &X{V: V, fn: fn, key: shortKey(key), ct: ct, inlined: map[string]bool{}, externs: map[string]bool{}, assumed: map[string]bool{},
		callCnt: map[string]int{}, nameCnt: map[string]int{}, opqNils: map[string]string{}, walkIdx: map[ssa.Value]int{}, sorts: map[string]string{}, sums: map[string]*SumFn{}, maxPaths: 400}
}

func shortKey(k string) string {
	parts := strings.SplitN(k, "::", 2)
	if len(parts) != 2 {
		return k
	}
	pkg := parts[0][strings.LastIndex(parts[0], "/")+1:]
	return pkg + "." + parts[1]
}

type fnResult struct {
	*VerifyResult
	Sums map[string]*SumFn
}

// verifyFunctions runs the symbolic executor on the given contract keys and discharges their obligations.
// keep selects the obligations that belong to the check (nil = all).
func (V *Verifier) verifyFunctions(keys []string, keep func(o *Oblig) bool, scratch string) ([]*fnResult, []*Oblig) {
	var results []*fnResult
	var all []*Oblig
	for _, k := range keys {
		ct := V.cs.ByKey[k]
		fn, ok := V.fnByKey[k]
		if !ok {
			results = append(results, &fnResult{VerifyResult: &VerifyResult{Key: shortKey(k), Undecided: "contract names a function that does not exist"}})
			continue
		}
		if ct.Trusted != "" {
			// contract assumed at call sites; the body is not verified against it (reported in the evidence)
			results = append(results, &fnResult{VerifyResult: &VerifyResult{Key: shortKey(k), Assumed: []string{shortKey(k) + " (trusted: " + ct.Trusted + ")"}, Paths: -1}})
			continue
		}
		x := V.newX(fn, k, ct)
		r := x.verify()
		fr := &fnResult{VerifyResult: r, Sums: x.sums}
		var kept []*Oblig
		for _, o := range r.Obligs {
			if keep == nil || keep(o) {
				kept = append(kept, o)
			}
		}
		r.Obligs = kept
		results = append(results, fr)
	}
	// discharge in parallel
	type job struct {
		o    *Oblig
		sums map[string]*SumFn
	}
	var jobs []job
	for _, r := range results {
		for _, o := range r.Obligs {
			jobs = append(jobs, job{o, r.Sums})
			all = append(all, o)
		}
	}
	sem := make(chan struct{}, 6)
	var wg sync.WaitGroup
	for _, j := range jobs {
		wg.Add(1)
		sem <- struct{}{}
		go func(j job) {
			defer wg.Done()
			defer func() { <-sem }()
			V.discharge(j.o, j.sums, scratch)
		}(j)
	}
	wg.Wait()
	// Second chance, one at a time: an obligation that no solver refuted but that ran out of time while up to six others were
	// being discharged next to it (or while the machine was busy with something else) is tried again alone, with three
	// times the time limit and the whole portfolio. Only for a handful: a change that breaks a property fails many
	// obligations at once, and those are not worth the wait.
	var again []job
	for _, j := range jobs {
		if (j.o.Status == "timeout" || j.o.Status == "unknown") && !j.o.Vacuity && strings.Contains(j.o.Detail, "timeout") && !isKnownOpen(j.o.Name) {
			again = append(again, j)
		}
	}
	if len(again) > 0 && len(again) <= 6 {
		saved := V.timeout
		V.timeout = saved * 3
		for _, j := range again {
			atomic.StoreInt32(&definiteFailures, 0)
			first := j.o.Detail
			j.o.Status, j.o.Backend = "", ""
			V.discharge(j.o, j.sums, scratch)
			j.o.Detail = "retried alone after: " + first + " || " + j.o.Detail
		}
		V.timeout = saved
	}
	return results, all
}

func mkScratch() string {
	base := os.Getenv("VERIF_SCRATCH")
	if base == "" {
		base = "/var/tmp"
	}
	d, err := os.MkdirTemp(base, "govc-")
	if err != nil {
		fmt.Fprintln(os.Stderr, "BROKEN: cannot create scratch directory:", err)
		os.Exit(2)
	}
	return d
}

func cmdVerify(V *Verifier, pats []string, verbose bool) int {
	var keys []string
	for k := range V.cs.ByKey {
		if V.cs.ByKey[k].Inline {
			continue
		}
		for _, p := range pats {
			if strings.Contains(k, p) {
				keys = append(keys, k)
				break
			}
		}
	}
	sort.Strings(keys)
	scratch := mkScratch()
	defer os.RemoveAll(scratch)
	if V.keepQueries != "" {
		os.MkdirAll(V.keepQueries, 0o755)
	}
	t0 := time.Now()
	results, _ := V.verifyFunctions(keys, nil, scratch)
	bad := 0
	for _, r := range results {
		if r.Undecided != "" {
			fmt.Printf("UNDECIDED function=%s reason=%s\n", r.Key, r.Undecided)
			bad++
			continue
		}
		if r.Paths < 0 {
			fmt.Printf("%s: TRUSTED (assumed, not verified)\n", r.Key)
			continue
		}
		nok := 0
		cov := map[string][]*Oblig{}
		var real []*Oblig
		for _, o := range r.Obligs {
			if o.Kind == "cover" {
				base := o.Name
				if i := strings.Index(base, "@"); i >= 0 {
					base = base[:i]
				}
				cov[base] = append(cov[base], o)
				continue
			}
			real = append(real, o)
			if o.ok() {
				nok++
			}
		}
		fmt.Printf("%s: paths=%d obligations=%d discharged=%d\n", r.Key, r.Paths, len(real), nok)
		for base, os := range cov {
			all := true
			for _, o := range os {
				if o.Status != "unsat" {
					all = false
				}
			}
			if all {
				bad++
				fmt.Printf("   VACUOUS  %s: the antecedent is unreachable on all %d return paths\n", base, len(os))
			}
		}
		for _, o := range real {
			if !o.ok() || verbose {
				fmt.Printf("   %-8s %-70s %6.2fs %s\n", o.Status, o.Name, o.Time, o.Detail)
				if !o.ok() {
					bad++
					fmt.Printf("            clause: %s\n", o.Clause)
				}
			}
		}
		if verbose {
			fmt.Printf("   inlined: %v\n   externs: %v\n", r.Inlined, r.Externs)
		}
	}
	fmt.Printf("wall %.1fs\n", time.Since(t0).Seconds())
	if bad > 0 {
		return 1
	}
	return 0
}

// ---------------------------------------------------------------- property checks

type Evidence struct {
	PropertyID  string                 `json:"property_id"`
	Tier        string                 `json:"tier"`
	Seed        int                    `json:"seed"`
	Level       string                 `json:"level"`
	Coverage    map[string]interface{} `json:"coverage"`
	Assumptions []string               `json:"assumptions"`
	WallS       float64                `json:"wall_s"`
	Violations  int                    `json:"violations"`
}

type KnownFindings struct {
	Fixed []struct {
		Property   string `json:"property"`
		Commit     string `json:"commit"`
		Obligation string `json:"obligation"`
		WhatFailed string `json:"what_failed"`
	} `json:"fixed"`
	Open []struct {
		Property   string `json:"property"`
		Obligation string `json:"obligation"`
		Summary    string `json:"summary"`
		Witness    string `json:"witness"`
	} `json:"open"`
}

func loadKnown() *KnownFindings {
	kf := &KnownFindings{}
	b, err := os.ReadFile("/verif/known_findings.json")
	if err == nil {
		json.Unmarshal(b, kf)
	}
	return kf
}

func (kf *KnownFindings) isOpen(prop, oblig string) (string, bool) {
	for _, o := range kf.Open {
		if o.Property == prop && obligMatches(o.Obligation, oblig) {
			return o.Summary, true
		}
	}
	return "", false
}

var openKnownOnce *KnownFindings

// isKnownOpen: the obligation is listed as an open finding (for whatever property): it is expected to fail, so it is
// neither retried nor counted among the failures that shorten the treatment of the other obligations.
func isKnownOpen(oblig string) bool {
	if openKnownOnce == nil {
		openKnownOnce = loadKnown()
	}
	for _, o := range openKnownOnce.Open {
		if obligMatches(o.Obligation, oblig) {
			return true
		}
	}
	return false
}

// obligMatches: a known finding names an obligation up to the "@site" suffix.
func obligMatches(pattern, name string) bool {
	if pattern == name {
		return true
	}
	if i := strings.Index(name, "@"); i >= 0 && pattern == name[:i] {
		return true
	}
	if i := strings.Index(name, "/c"); i >= 0 && obligMatches(pattern, name[:i]) {
		return true
	}
	return false
}

func hasLabel(o *Oblig, p string) bool {
	for _, l := range o.Labels {
		if l == p {
			return true
		}
	}
	return false
}

func cmdCheck(V *Verifier, prop string, verbose bool) int {
	t0 := time.Now()
	if err := V.loadAll(); err != nil {
		fmt.Fprintln(os.Stderr, "BROKEN:", err)
		return 2
	}
	props := []string{prop}
	if prop == "all" {
		props = nil
		for i := 1; i <= 20; i++ {
			props = append(props, fmt.Sprintf("C%02d", i))
		}
	}
	rc := 0
	for _, p := range props {
		if r := V.checkProperty(p, verbose, t0); r > rc {
			rc = r
		}
	}
	return rc
}

func (V *Verifier) checkProperty(prop string, verbose bool, t0 time.Time) int {
	var keys []string
	for k, c := range V.cs.ByKey {
		if c.Props[prop] && !c.Inline {
			keys = append(keys, k)
		}
	}
	sort.Strings(keys)
	scratch := mkScratch()
	defer os.RemoveAll(scratch)
	keep := func(o *Oblig) bool {
		// labelled clauses belong to their properties; unlabelled obligations (safety, call preconditions, invariants
		// without a label, frames, vacuity) belong to every property the function serves
		return len(o.Labels) == 0 || hasLabel(o, prop)
	}
	results, obligs := V.verifyFunctions(keys, keep, scratch)
	scan := V.runScans(prop)
	obligs = append(obligs, scan...)
	lem := V.runLemmas(prop, scratch)
	obligs = append(obligs, lem...)
	kf := loadKnown()
	var failed, known []*Oblig
	var undecided []Undecided
	byBackend := map[string]int{}
	solverTime, maxBytes := 0.0, 0
	nDis := 0
	paths := 0
	inl, ext, asm := map[string]bool{}, map[string]bool{}, map[string]bool{}
	var fuc []string
	for _, r := range results {
		if r.Undecided != "" {
			undecided = append(undecided, Undecided{r.Key, r.Undecided})
			continue
		}
		if r.Paths < 0 {
			for _, k := range r.Assumed {
				asm[k] = true
			}
			continue
		}
		fuc = append(fuc, r.Key)
		paths += r.Paths
		for _, k := range r.Inlined {
			inl[k] = true
		}
		for _, k := range r.Externs {
			ext[k] = true
		}
		for _, k := range r.Assumed {
			asm[k] = true
		}
	}
	nReal := 0
	covers := map[string][]*Oblig{}
	for _, o := range obligs {
		solverTime += o.Time
		if o.Bytes > maxBytes {
			maxBytes = o.Bytes
		}
		if o.Kind == "cover" {
			// reachability of a postcondition's antecedent: judged per clause over all return paths (below)
			base := o.Name
			if i := strings.Index(base, "@"); i >= 0 {
				base = base[:i]
			}
			covers[base] = append(covers[base], o)
			continue
		}
		if o.Vacuity {
			if !o.ok() {
				failed = append(failed, o)
			}
			continue
		}
		nReal++
		if o.ok() {
			nDis++
			byBackend[o.Backend]++
			continue
		}
		if _, isKnown := kf.isOpen(prop, o.Name); isKnown {
			known = append(known, o)
			continue
		}
		failed = append(failed, o)
	}
	// a postcondition "A ==> B" whose antecedent is unreachable on every return path holds vacuously: broken contract
	// or broken engine, never a proof
	nCovered := 0
	for base, os := range covers {
		allUnsat := true
		for _, o := range os {
			if o.Status != "unsat" {
				allUnsat = false
			}
		}
		if allUnsat {
			o := *os[0]
			o.Name = base + " (antecedent unreachable on all " + fmt.Sprint(len(os)) + " return paths)"
			failed = append(failed, &o)
		} else {
			nCovered++
		}
	}
	samples := []interface{}{}
	want := 0 // index from which the next sample is taken: the first proper obligation at or after every fifth of the list
	for i, o := range obligs {
		if i >= want && !o.Vacuity {
			samples = append(samples, map[string]interface{}{"obligation": o.Name, "kind": o.Kind, "clause": o.Clause, "status": o.Status, "backend": o.Backend, "smt_bytes": o.Bytes, "time_s": round2(o.Time)})
			want = (i/(len(obligs)/5+1) + 1) * (len(obligs)/5 + 1)
		}
	}
	rc := 0
	knownSeen := map[string]bool{}
	for _, o := range known {
		s, _ := kf.isOpen(prop, o.Name)
		base := o.Name
		if i := strings.Index(base, "@"); i >= 0 {
			base = base[:i]
		}
		if knownSeen[base] { // one line per finding; the paths on which it shows are in the evidence file
			continue
		}
		knownSeen[base] = true
		fmt.Printf("KNOWN-FINDING: property=%s %s (obligation %s)\n", prop, s, base)
	}
	for _, u := range undecided {
		fmt.Printf("UNDECIDED function=%s reason=%s\n", u.Fn, u.Reason)
	}
	violations := 0
	for _, o := range failed {
		dir := V.writeReplay(prop, o)
		violations++
		if o.Vacuity {
			fmt.Printf("BROKEN property=%s vacuity check failed: %s (%s)\n", prop, o.Name, o.Detail)
			rc = 2
			continue
		}
		replayed := V.tryReplay(prop, o, dir)
		if replayed {
			fmt.Printf("VIOLATION property=%s replay=%s obligation=%s\n", prop, dir, o.Name)
		} else {
			fmt.Printf("VIOLATION property=%s replay=%s obligation=%s no-failing-input-found\n", prop, dir, o.Name)
		}
		if rc == 0 {
			rc = 1
		}
	}
	if len(keys) == 0 && len(scan) == 0 && len(lem) == 0 {
		fmt.Printf("BROKEN property=%s: no function, scan or lemma carries this property\n", prop)
		rc = 2
	}
	for _, u := range undecided {
		// the deciding step is the verifier accepting every obligation generated from the current source; a function it
		// can no longer bring under contract (construct outside the subset, renamed invariant variable, missing model)
		// leaves its obligations undischarged. Reported as a violation without a failing input.
		o := &Oblig{Name: u.Fn + "#verifier-reach", Fn: u.Fn, Kind: "reach", Status: "undecided", Detail: u.Reason, Clause: "every function under contract must be within the verifier's reach: " + u.Reason}
		dir := V.writeReplay(prop, o)
		violations++
		fmt.Printf("VIOLATION property=%s replay=%s obligation=%s no-failing-input-found\n", prop, dir, o.Name)
		if rc == 0 {
			rc = 1
		}
	}
	// bounded stand-ins: conformance tests of assumed contracts (labelled bounded, never counted as proved)
	var bounded []map[string]interface{}
	if V.tier == "thorough" && mathModelProps[prop] {
		res := V.runMathModelConformance()
		bounded = append(bounded, res)
		if res["result"] != "pass" {
			o := &Oblig{Name: "cosmossdk.io/math#extern-model-conformance", Fn: "extern models", Kind: "bounded", Status: "failed", Detail: fmt.Sprint(res["output"]), Clause: "the prelude definitions of the LegacyDec/Int operations agree with the library on the conformance grid"}
			dir := V.writeReplay(prop, o)
			fmt.Printf("BROKEN property=%s replay=%s the extern model of cosmossdk.io/math disagrees with the library: nothing proved with it can be trusted\n", prop, dir)
			rc = 2
		}
	}
	// the finite-sum schemas instantiated by smt.go (T-Sigma) are proved in lean/TSigma.lean; the thorough tier re-checks them
	var sumSchemas interface{} = "proved in /verif/lean/TSigma.lean (Lean 4.33 + Mathlib); re-checked by the thorough tier and by ./bin/govc tsigma, not in this run"
	if V.tier == "thorough" {
		res := runTSigma()
		sumSchemas = res
		if res["result"] != "pass" {
			o := &Oblig{Name: "T-Sigma#lean-check", Fn: "finite-sum schemas", Kind: "lemma", Status: "failed", Detail: fmt.Sprint(res["output"]), Clause: "every finite-sum schema instantiated by the VC generator is a theorem (lean/TSigma.lean)"}
			dir := V.writeReplay(prop, o)
			fmt.Printf("BROKEN property=%s replay=%s the finite-sum schemas are not accepted by Lean: nothing proved with them can be trusted\n", prop, dir)
			rc = 2
		}
	}
	for _, bc := range boundedChecks[prop] {
		if bc.ThoroughOnly && V.tier != "thorough" {
			continue
		}
		res := V.runBounded(bc)
		bounded = append(bounded, res)
		if res["result"] != "pass" {
			o := &Oblig{Name: bc.Name + "#bounded-conformance", Fn: bc.Name, Kind: "bounded", Status: "failed", Detail: fmt.Sprint(res["output"]), Clause: bc.What}
			dir := V.writeReplay(prop, o)
			violations++
			fmt.Printf("VIOLATION property=%s replay=%s obligation=%s (bounded conformance test of an assumed contract failed on the real code)\n", prop, dir, o.Name)
			if rc == 0 {
				rc = 1
			}
		}
	}
	level := "proof"
	cov := map[string]interface{}{
		// obligations of the claim: those that fail as recorded open findings are reported separately (KNOWN-FINDING
		// lines, known_finding_obligations) and are not part of what is claimed proved
		"obligations":               nReal - len(known),
		"discharged":                nDis,
		"known_finding_obligations": len(known),
		"checker_cmd":               fmt.Sprintf("./bin/govc check %s --tier %s", prop, V.tier),
		"trusted_base":              trustedBase(ext, asm),
		"functions_under_contract":  fuc,
		"inlined_bodies":            sortedSet(inl),
		"extern_models_used":        sortedSet(ext),
		"assumed_contracts":         sortedSet(asm),
		"paths":                     paths,
		"by_backend":                byBackend,
		"solver_time_s":             round2(solverTime),
		"max_query_bytes":           maxBytes,
		"samples":                   samples,
		"undecided":                 undecided,
		"known_findings_reported":   len(known),
		"scan_obligations":          len(scan),
		"lemma_obligations":         len(lem),
		"not_decided_sentences":     notDecided[prop],
		"bounded_standins":          bounded,
		"sum_schemas_T_Sigma":       sumSchemas,
	}
	ev := Evidence{PropertyID: prop, Tier: V.tier, Seed: V.seed, Level: level, Coverage: cov, Assumptions: assumptionsFor(prop), WallS: round2(time.Since(t0).Seconds()), Violations: violations}
	evDir := "/verif/evidence"
	if d := os.Getenv("GOVC_EVIDENCE_DIR"); d != "" { // selftest runs on mutants must not overwrite the evidence of the real tree
		evDir = d
	}
	os.MkdirAll(evDir, 0o755)
	if err := jsonOut(filepath.Join(evDir, prop+".json"), ev); err != nil {
		fmt.Fprintln(os.Stderr, "BROKEN: cannot write evidence:", err)
		return 2
	}
	fmt.Printf("property=%s functions=%d obligations=%d discharged=%d known=%d failed=%d undecided=%d solver=%.1fs wall=%.1fs\n",
		prop, len(fuc), nReal, nDis, len(known), len(failed), len(undecided), solverTime, time.Since(t0).Seconds())
	if verbose {
		for _, o := range obligs {
			fmt.Printf("   %-8s %-80s %6.2fs %s\n", o.Status, o.Name, o.Time, o.Backend)
		}
	}
	return rc
}

func round2(f float64) float64 { return float64(int(f*100+0.5)) / 100 }

func trustedBase(ext, asm map[string]bool) []string {
	tb := []string{"go/ssa (x/tools v0.29.0) translation of the Go source", "govc symbolic executor and SMT encoding", "z3 5.1 / z3 4.8.12 / cvc5 1.0.3 (an unsat answer of any one discharges)",
		"prelude definitions of cosmossdk.io/math LegacyDec/Int arithmetic (mathematical integers, 256/315-bit overflow panics not modelled)"}
	tb = append(tb, "that the finite-sum instances generated by smt.go (unfolding, CONG, UPD, PW, PWU, NONNEG, ALLZERO, MONO, TAILZERO) are instances of the theorems of lean/TSigma.lean (the theorems themselves are machine-checked, not trusted)")
	if len(ext) > 0 {
		tb = append(tb, fmt.Sprintf("%d extern models of dependencies (listed in extern_models_used)", len(ext)))
	}
	for k := range asm {
		tb = append(tb, "assumed contract: "+k)
	}
	sort.Strings(tb[5:])
	return tb
}

// writeReplay stores what is known about a failed obligation.
func (V *Verifier) writeReplay(prop string, o *Oblig) string {
	h := sha1.Sum([]byte(o.Name + o.Goal))
	dir := filepath.Join("/verif/replays", prop, fmt.Sprintf("%s-%x", sanitize(o.Name), h[:4]))
	os.MkdirAll(dir, 0o755)
	var b strings.Builder
	fmt.Fprintf(&b, "property: %s\nobligation: %s\nkind: %s\nfunction: %s\nclause: %s\nstatus: %s\nsolvers: %s\n", prop, o.Name, o.Kind, o.Fn, o.Clause, o.Status, o.Detail)
	os.WriteFile(filepath.Join(dir, "obligation.txt"), []byte(b.String()), 0o644)
	if o.Goal != "" {
		q := V.buildQuery(o, nil, !o.Vacuity, 0)
		os.WriteFile(filepath.Join(dir, "query.smt2"), []byte(q), 0o644)
	}
	return dir
}

// BoundedCheck is a conformance test of an assumed (trusted) contract, run on the real code with a stated bound.
type BoundedCheck struct {
	Name, What, Bound  string
	TestFile, InPkgDir string // test source under /verif/conformance, injected with go test -overlay into this package directory of /repo
	Run                string
	ThoroughOnly       bool // the contract is verified; the test is an extra cross-check of the engine's models against the real code
}

var boundedChecks = map[string][]BoundedCheck{
	"C03": {{Name: "types.BidsByPrice", What: "assumed contract of types.BidsByPrice (order book = regrouping of the bids by strictly descending price)",
		Bound:    "BOUNDED: all lists of up to 4 bids and every 97th list of 5 bids over 24 bid shapes (3 prices x 2 bidders x 2 bid types x 2 amounts)",
		TestFile: "/verif/conformance/bidsbyprice_conformance_test.go", InPkgDir: "x/fundraising/types", Run: "TestZZConformanceBidsByPrice"}},
	"C02": {settlementTransfers},
	"C01": {settlementTransfers, refundsNonNegative},
	"C04": {refundsNonNegative, listingSums},
	"C05": {listingSums},
	"C06": {listingSums},
	"C10": {listingSums},
	"C18": {listingSums},
	"C19": {listingSums},
}

var listingSums = BoundedCheck{Name: "keeper.GetBidsByBidder#listing-sums-per-auction", What: "trusted postcondition of Keeper.GetBidsByBidder: for every auction, the bids of the returned listing that belong to it add up to the sum over the dense bid ids 1..BidSeq of the bids stored for that bidder (order of a whole-collection Walk combined with a regrouping of finite sums, not proved)",
	Bound:    "BOUNDED: the empty sequence, every single bid, every pair, every 11th triple and every quadruple extending every 331st triple over 24 bid shapes (3 concurrent fixed-price auctions, two sharing both denominations x 2 bidders x paying/selling denomination x amounts 1, 7 at price 0.333333333333333333), compared for 3 bidders (one without bids) x 3 auctions (about 2,900 sequences on the simulated application, stores shared by up to 200 sequences)",
	TestFile: "/verif/conformance/listing_sums_conformance_test.go", InPkgDir: "x/fundraising/keeper", Run: "TestKeeperTestSuite/TestZZConformanceListingSumsPerAuction"}

var refundsNonNegative = BoundedCheck{Name: "keeper.CalculateBatchAllocation#refunds-are-non-negative", What: "trusted postcondition of Keeper.CalculateBatchAllocation: every refund is >= 0, at most the bidder's reservation, and equal to reservation minus payment (per-bid rounding bounds combined with a regrouping of sums over the order book, not proved)",
	Bound:    "BOUNDED: every single bid, every pair and every 7th triple of bids over 36 bid shapes (2 bidders x worth/many x prices 0.5, 0.333333333333333333, 1.7 x amounts 1, 7, 100), supplies 10/150, allowance 1000 or lowered to 5 before settlement (about 8,000 order books on the simulated application)",
	TestFile: "/verif/conformance/refunds_nonnegative_conformance_test.go", InPkgDir: "x/fundraising/keeper", Run: "TestKeeperTestSuite/TestZZConformanceRefundsNonNegative"}

var settlementTransfers = BoundedCheck{ThoroughOnly: true, Name: "keeper.AllocateSellingCoin+RefundPayingCoin", What: "contracts of Keeper.AllocateSellingCoin and Keeper.RefundPayingCoin (every bidder of the map receives exactly their amount from the respective escrow, nobody else is touched); both are verified, the test cross-checks the bank and map-range models against the real code",
	Bound:    "BOUNDED: every assignment of the amounts {0, 1, 5} to three bidders, both functions (54 runs on the simulated application)",
	TestFile: "/verif/conformance/settlement_transfers_conformance_test.go", InPkgDir: "x/fundraising/keeper", Run: "TestKeeperTestSuite/TestZZConformanceSettlementTransfers"}

func (V *Verifier) runBounded(bc BoundedCheck) map[string]interface{} {
	out := map[string]interface{}{"name": bc.Name, "what": bc.What, "bound": bc.Bound, "label": "bounded"}
	dir, err := os.MkdirTemp(os.Getenv("VERIF_SCRATCH_OR_VAR_TMP"), "govc-bounded-")
	if err != nil {
		dir, err = os.MkdirTemp("/var/tmp", "govc-bounded-")
	}
	if err != nil {
		out["result"], out["output"] = "error", err.Error()
		return out
	}
	defer os.RemoveAll(dir)
	// the overlay carries the test file and whatever source overlays this run was started with (mutant runs)
	repl := map[string]string{filepath.Join(V.repo, bc.InPkgDir, "zz_conformance_"+filepath.Base(bc.TestFile)): bc.TestFile}
	for k, v := range V.overlayFiles {
		repl[k] = v
	}
	ov, _ := json.Marshal(map[string]interface{}{"Replace": repl})
	ovf := filepath.Join(dir, "overlay.json")
	os.WriteFile(ovf, ov, 0o644)
	cmd := exec.Command("go", "test", "-overlay", ovf, "-vet=off", "-count=1", "-timeout", "900s", "-run", bc.Run, "-v", "./"+bc.InPkgDir)
	cmd.Dir = V.repo
	cmd.Env = append(os.Environ(), "GOFLAGS=-mod=mod", "GOPROXY=off", "GOSUMDB=off", "GOTOOLCHAIN=local")
	t0 := time.Now()
	b, err := cmd.CombinedOutput()
	out["wall_s"] = round2(time.Since(t0).Seconds())
	txt := string(b)
	if len(txt) > 2000 {
		txt = txt[len(txt)-2000:]
	}
	out["output"] = txt
	if err == nil && strings.Contains(string(b), "--- PASS: "+bc.Run) {
		out["result"] = "pass"
		for _, ln := range strings.Split(string(b), "\n") {
			if i := strings.Index(ln, "contract held on "); i >= 0 {
				var n int
				fmt.Sscanf(ln[i+len("contract held on "):], "%d", &n)
				out["cases"] = n
			}
		}
	} else {
		out["result"] = "fail"
	}
	return out
}

// properties whose obligations use the LegacyDec / Int extern models
var mathModelProps = map[string]bool{"C01": true, "C02": true, "C03": true, "C04": true, "C05": true, "C06": true, "C09": true, "C11": true, "C13": true}

// runMathModelConformance: evaluates the real cosmossdk.io/math on a grid (test injected with -overlay), then lets the
// solver evaluate the prelude definitions on the same operands; any disagreement fails. BOUNDED: the grid of the test.
func (V *Verifier) runMathModelConformance() map[string]interface{} {
	out := map[string]interface{}{"name": "cosmossdk.io/math extern models", "label": "bounded",
		"bound": "BOUNDED: 42 edge operands (0, +-1, halves, S-1, S, S+1, 30-digit values ...) for unary and all ordered pairs for binary operations",
		"what":  "prelude functions decMul, decMulTrunc, decQuo, decQuoTrunc, decCeil, decTruncInt, tdiv versus LegacyDec.Mul, MulTruncate, Quo, QuoTruncate, Ceil, TruncateInt, Int.Quo"}
	dir, err := os.MkdirTemp("/var/tmp", "govc-mathconf-")
	if err != nil {
		out["result"], out["output"] = "error", err.Error()
		return out
	}
	defer os.RemoveAll(dir)
	repl := map[string]string{filepath.Join(V.repo, "x/fundraising/types/zz_conformance_math_model_test.go"): "/verif/conformance/math_model_conformance_test.go"}
	ov, _ := json.Marshal(map[string]interface{}{"Replace": repl})
	ovf := filepath.Join(dir, "overlay.json")
	os.WriteFile(ovf, ov, 0o644)
	cmd := exec.Command("go", "test", "-overlay", ovf, "-vet=off", "-count=1", "-timeout", "300s", "-run", "TestZZConformanceMathModel", "-v", "./x/fundraising/types")
	cmd.Dir = V.repo
	cmd.Env = append(os.Environ(), "GOFLAGS=-mod=mod", "GOPROXY=off", "GOSUMDB=off", "GOTOOLCHAIN=local")
	b, err := cmd.CombinedOutput()
	if err != nil {
		out["result"], out["output"] = "error", string(b)
		return out
	}
	lit := func(s string) string {
		if strings.HasPrefix(s, "-") {
			return "(- " + s[1:] + ")"
		}
		return s
	}
	var q strings.Builder
	for _, l := range strings.Split(prelude, "\n") {
		if strings.HasPrefix(l, "(define-fun ") || strings.HasPrefix(l, "(declare-sort ") {
			q.WriteString(l + "\n")
		}
	}
	n := 0
	q.WriteString("(assert (or false\n")
	for _, ln := range strings.Split(string(b), "\n") {
		f := strings.Fields(ln)
		if len(f) < 4 || f[0] != "CASE" {
			continue
		}
		args := f[2 : len(f)-1]
		var as []string
		for _, a := range args {
			as = append(as, lit(a))
		}
		fmt.Fprintf(&q, " (distinct (%s %s) %s)\n", f[1], strings.Join(as, " "), lit(f[len(f)-1]))
		n++
	}
	q.WriteString("))\n(check-sat)\n")
	qf := filepath.Join(dir, "mathconf.smt2")
	os.WriteFile(qf, []byte(q.String()), 0o644)
	so, _ := exec.Command("z3-new", "-T:120", qf).CombinedOutput()
	out["cases"] = n
	first := strings.TrimSpace(strings.SplitN(string(so), "\n", 2)[0])
	if first == "unsat" && n > 1000 {
		out["result"] = "pass"
	} else {
		out["result"], out["output"] = "fail", "solver: "+first
	}
	return out
}

// tsigmaTheorems are the finite-sum schemas of smt.go (buildQuery unfoldings, sumRelationLemmas), by the names used there.
var tsigmaTheorems = []string{"DEF0", "DEFS", "CONG", "PW", "NONNEG", "ALLZERO", "MONO", "TAILZERO", "UPD", "PWU"}

// runTSigma has Lean check /verif/lean/TSigma.lean and requires every schema to be reported as a theorem that depends on
// the three standard axioms only (no sorryAx, no error).
func runTSigma() map[string]interface{} {
	t0 := time.Now()
	file := "/verif/lean/TSigma.lean"
	res := map[string]interface{}{"file": file, "checker": "lean 4.33.0 + Mathlib v4.33.0 (#print axioms per theorem)", "theorems": tsigmaTheorems}
	ctx, cancel := context.WithTimeout(context.Background(), 15*time.Minute)
	defer cancel()
	cmd := exec.CommandContext(ctx, "lean", file)
	cmd.Dir = "/verif/lean"
	out, err := cmd.CombinedOutput()
	text := string(out)
	ok := err == nil && !strings.Contains(text, "error") && !strings.Contains(text, "sorryAx")
	n := 0
	for _, th := range tsigmaTheorems {
		if strings.Contains(text, "'TSigma."+th+"' depends on axioms: [propext, Classical.choice, Quot.sound]") {
			n++
		} else {
			ok = false
		}
	}
	res["theorems_accepted"] = n
	res["wall_s"] = round2(time.Since(t0).Seconds())
	if ok {
		res["result"] = "pass"
	} else {
		res["result"] = "fail"
		if len(text) > 4000 {
			text = text[:4000]
		}
		res["output"] = text + fmt.Sprint(err)
	}
	return res
}
