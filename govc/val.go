package main

// Symbolic value domain of the verifier: Go values are exploded into SMT scalars.
//
//   Sc     one SMT term (sorts Int, Bool, Str, Addr, Coins or arrays of them)
//   St     struct / array value: field name -> value
//   Sl     slice: (len, element arrays); ID>0 names a mutable backing store in State.arrs
//   MapV   reference to a Go map object in State.maps
//   Ptr    pointer to (a path inside) a heap object in State.objs
//   PElem  pointer to an element of a slice backing store
//   PCell  pointer to the struct owned (unique pointer) by a map cell
//   Iface  interface value: dynamic kind + payload
//   Er     error value: (nil?, kind)
//   Clo    closure
//   Coll   handle of a collections.Map/Item/Sequence field of the Keeper (ghost store variable)
//   Opq    opaque value the verifier does not look into

import (
	"fmt"
	"go/types"
	"sort"
	"strings"

	"golang.org/x/tools/go/ssa"
)

type Val interface{}

type Sc struct {
	T    string // SMT term
	Sort string // SMT sort
	Nil  string // for math.Int / LegacyDec: SMT Bool term "this value is the nil (zero-value) Int"; "" = never nil
}
type St struct{ F map[string]Val }
type Sl struct {
	ID   int    // >0: backing store State.arrs[ID]; 0: immutable value slice (Elem)
	Len  string // SMT Int term
	Elem Val    // leaves are (Array Int X); nil when Len is 0 and the element type is unknown
}
type MapV struct{ ID int } // 0 = nil map
type Ptr struct {
	Obj  int // 0 = nil pointer
	Path []string
}
type PElem struct {
	ID   int
	Idx  string
	Path []string
}
type PCell struct {
	ID   int
	Key  string
	Path []string
}
type PGlobal struct{ G *ssa.Global }
type Iface struct {
	Dyn  types.Type // concrete dynamic type when statically known, else nil
	V    Val        // payload (for AuctionI: Ptr to the union object)
	Kind string     // SMT Int term for symbolic AuctionI kinds (0 = nil interface); "" otherwise
}
type Er struct {
	Nil  string // SMT Bool term: err == nil
	Kind string // SMT Int term: error class (only meaningful when not nil)
}
type Clo struct {
	Fn   *ssa.Function
	Bind []Val
}
type Coll struct{ Name string }
type Opq struct{ Why string }
type Tuple []Val
type FnVal struct{ Fn *ssa.Function }

// MapS is the content of a Go map object.
type MapS struct {
	Dom     string // (Array K Bool)
	Val     Val    // leaves: (Array K X)
	KSort   string
	PtrElem bool // map[K]*T handled as unique-pointer map
	ElemT   types.Type
	Nil     bool
}

// ---------------------------------------------------------------- SMT term helpers

func sAnd(xs ...string) string {
	var out []string
	for _, x := range xs {
		if x == "true" || x == "" {
			continue
		}
		if x == "false" {
			return "false"
		}
		out = append(out, x)
	}
	switch len(out) {
	case 0:
		return "true"
	case 1:
		return out[0]
	}
	return "(and " + strings.Join(out, " ") + ")"
}
func sOr(xs ...string) string {
	var out []string
	for _, x := range xs {
		if x == "false" || x == "" {
			continue
		}
		if x == "true" {
			return "true"
		}
		out = append(out, x)
	}
	switch len(out) {
	case 0:
		return "false"
	case 1:
		return out[0]
	}
	return "(or " + strings.Join(out, " ") + ")"
}
func sNot(x string) string {
	switch x {
	case "true":
		return "false"
	case "false":
		return "true"
	}
	if strings.HasPrefix(x, "(not ") && balanced(x[5:len(x)-1]) {
		return x[5 : len(x)-1]
	}
	return "(not " + x + ")"
}
func balanced(s string) bool {
	d := 0
	inBar := false
	for i := 0; i < len(s); i++ {
		c := s[i]
		if c == '|' {
			inBar = !inBar
		}
		if inBar {
			continue
		}
		if c == '(' {
			d++
		} else if c == ')' {
			d--
			if d < 0 {
				return false
			}
		} else if c == ' ' && d == 0 {
			return false
		}
	}
	return d == 0
}
func sImp(a, b string) string {
	if a == "true" {
		return b
	}
	if a == "false" || b == "true" {
		return "true"
	}
	return "(=> " + a + " " + b + ")"
}
func sEq(a, b string) string {
	if a == b {
		return "true"
	}
	return "(= " + a + " " + b + ")"
}
func sIte(c, a, b string) string {
	if c == "true" {
		return a
	}
	if c == "false" {
		return b
	}
	if a == b {
		return a
	}
	return "(ite " + c + " " + a + " " + b + ")"
}
func sApp(f string, args ...string) string {
	if len(args) == 0 {
		return f
	}
	if (f == "+" || f == "-") && len(args) == 2 {
		// constant folding of small integer literals (range indices start at -1 + 1): keeps index terms canonical
		if a, okA := smallLit(args[0]); okA {
			if b, okB := smallLit(args[1]); okB {
				if f == "+" {
					return sInt(a + b)
				}
				return sInt(a - b)
			}
		}
		if b, okB := smallLit(args[1]); okB && b == 0 {
			return args[0]
		}
	}
	return "(" + f + " " + strings.Join(args, " ") + ")"
}

// smallLit parses "7" or "(- 7)" with |n| < 2^31.
func smallLit(t string) (int64, bool) {
	neg := false
	if strings.HasPrefix(t, "(- ") && strings.HasSuffix(t, ")") && !strings.Contains(t[3:len(t)-1], " ") {
		neg = true
		t = t[3 : len(t)-1]
	}
	if len(t) == 0 || len(t) > 9 {
		return 0, false
	}
	var n int64
	for _, c := range t {
		if c < '0' || c > '9' {
			return 0, false
		}
		n = n*10 + int64(c-'0')
	}
	if neg {
		n = -n
	}
	return n, true
}
func sInt(n int64) string {
	if n < 0 {
		return fmt.Sprintf("(- %d)", -n)
	}
	return fmt.Sprint(n)
}
func sSel(a, i string) string      { return "(select " + a + " " + i + ")" }
func sStore(a, i, v string) string { return "(store " + a + " " + i + " " + v + ")" }

func arrSort(k, v string) string { return "(Array " + k + " " + v + ")" }

// ---------------------------------------------------------------- type classification

func namedOf(t types.Type) string {
	if a, ok := t.(*types.Alias); ok {
		return namedOf(types.Unalias(a))
	}
	if n, ok := t.(*types.Named); ok && n.Obj().Pkg() != nil {
		return n.Obj().Pkg().Path() + "." + n.Obj().Name()
	}
	if n, ok := t.(*types.Named); ok {
		return n.Obj().Name()
	}
	return ""
}

const (
	tyInt     = "cosmossdk.io/math.Int"
	tyDec     = "cosmossdk.io/math.LegacyDec"
	tyTime    = "time.Time"
	tyAddr    = "github.com/cosmos/cosmos-sdk/types.AccAddress"
	tyCoins   = "github.com/cosmos/cosmos-sdk/types.Coins"
	tyCoin    = "github.com/cosmos/cosmos-sdk/types.Coin"
	tyAuction = "github.com/tendermint/fundraising/x/fundraising/types.AuctionI"
	tyAny     = "github.com/cosmos/cosmos-sdk/codec/types.Any"
	modTypes  = "github.com/tendermint/fundraising/x/fundraising/types"
	modKeeper = "github.com/tendermint/fundraising/x/fundraising/keeper"
	modModule = "github.com/tendermint/fundraising/x/fundraising/module"
)

// scalarSort returns the SMT sort if t is modelled as one scalar.
func scalarSort(t types.Type) string {
	switch namedOf(t) {
	case tyInt, tyDec, tyTime:
		return "Int"
	case tyAddr:
		return "Addr"
	case tyCoins:
		return "Coins"
	case "time.Duration":
		return "Int"
	case modTypes + ".FundraisingHooks":
		return "Ref" // a listener of another module: an opaque reference with identity (nilref = the nil interface)
	}
	if b, ok := t.Underlying().(*types.Basic); ok {
		switch {
		case b.Info()&types.IsInteger != 0:
			return "Int"
		case b.Info()&types.IsBoolean != 0:
			return "Bool"
		case b.Info()&types.IsString != 0:
			return "Str"
		}
	}
	return ""
}

func smtSort(s string) string {
	if s == "Coins" {
		return "(Array Str Int)"
	}
	return s
}

func isErrorType(t types.Type) bool {
	if n := namedOf(t); n == "error" {
		return true
	}
	if i, ok := t.Underlying().(*types.Interface); ok && i.NumMethods() == 1 && i.Method(0).Name() == "Error" {
		return true
	}
	return false
}

// intRange returns the machine range of an integer basic type (bits, signed).
func intRange(t types.Type) (bits int, signed bool, ok bool) {
	b, isb := t.Underlying().(*types.Basic)
	if !isb || b.Info()&types.IsInteger == 0 {
		return 0, false, false
	}
	switch b.Kind() {
	case types.Int, types.Int64, types.UntypedInt:
		return 64, true, true
	case types.Int32, types.UntypedRune:
		return 32, true, true
	case types.Int16:
		return 16, true, true
	case types.Int8:
		return 8, true, true
	case types.Uint, types.Uint64, types.Uintptr:
		return 64, false, true
	case types.Uint32:
		return 32, false, true
	case types.Uint16:
		return 16, false, true
	case types.Uint8:
		return 8, false, true
	}
	return 0, false, false
}

func pow2(n int) string {
	switch n {
	case 8:
		return "256"
	case 16:
		return "65536"
	case 32:
		return "4294967296"
	case 64:
		return "18446744073709551616"
	case 7:
		return "128"
	case 15:
		return "32768"
	case 31:
		return "2147483648"
	case 63:
		return "9223372036854775808"
	}
	panic("pow2")
}

// wrapInt wraps the mathematical integer term e into the machine range of t, as Go does.
func wrapInt(e string, t types.Type) string {
	bits, signed, ok := intRange(t)
	if !ok {
		return e
	}
	if !signed {
		return "(mod " + e + " " + pow2(bits) + ")"
	}
	return "(- (mod (+ " + e + " " + pow2(bits-1) + ") " + pow2(bits) + ") " + pow2(bits-1) + ")"
}

func rangeFact(e string, t types.Type) string {
	bits, signed, ok := intRange(t)
	if !ok {
		return "true"
	}
	if !signed {
		return "(and (<= 0 " + e + ") (< " + e + " " + pow2(bits) + "))"
	}
	return "(and (<= (- " + pow2(bits-1) + ") " + e + ") (< " + e + " " + pow2(bits-1) + "))"
}

// ---------------------------------------------------------------- structural helpers

func sortedKeys(m map[string]Val) []string {
	ks := make([]string, 0, len(m))
	for k := range m {
		ks = append(ks, k)
	}
	sort.Strings(ks)
	return ks
}

// mapLeaves applies f to every scalar leaf (slices: len and element leaves).
func mapLeaves(v Val, f func(Sc) Val) Val {
	switch y := v.(type) {
	case Sc:
		return f(y)
	case St:
		r := St{map[string]Val{}}
		for k, e := range y.F {
			r.F[k] = mapLeaves(e, f)
		}
		return r
	case Sl:
		if y.ID != 0 {
			panic("mapLeaves on a mutable slice (flatten first)")
		}
		var el Val
		if y.Elem != nil {
			el = mapLeaves(y.Elem, f)
		}
		return Sl{0, tm(f(Sc{T: y.Len, Sort: "Int"})), el}
	case Opq, Coll, IfaceArr, nil:
		return v // (IfaceArr: the argument list of a variadic fmt call, never read back)
	case Er:
		n := f(Sc{T: y.Nil, Sort: "Bool"}).(Sc)
		k := f(Sc{T: y.Kind, Sort: "Int"}).(Sc)
		return Er{n.T, k.T}
	case Ptr:
		return Opq{"pointer inside aggregate"}
	case Iface:
		return Opq{"interface inside aggregate"}
	}
	panic(fmt.Sprintf("mapLeaves %T", v))
}

func zipLeaves(a, b Val, f func(a, b Sc) Val) Val {
	if _, ok := b.(IfaceArr); ok {
		return b // the argument list of a variadic fmt call: never read back
	}
	if _, ok := a.(IfaceArr); ok {
		return b
	}
	switch y := a.(type) {
	case Sc:
		bs, ok := b.(Sc)
		if !ok {
			panic(fmt.Sprintf("zipLeaves: Sc vs %T", b))
		}
		return f(y, bs)
	case St:
		r := St{map[string]Val{}}
		bs, ok := b.(St)
		if !ok {
			panic(fmt.Sprintf("zipLeaves: St vs %T", b))
		}
		for k, e := range y.F {
			r.F[k] = zipLeaves(e, bs.F[k], f)
		}
		return r
	case Sl:
		bs, ok := b.(Sl)
		if !ok {
			panic(fmt.Sprintf("zipLeaves: Sl vs %T", b))
		}
		var el Val
		if y.Elem != nil && bs.Elem != nil {
			el = zipLeaves(y.Elem, bs.Elem, f)
		} else if y.Elem != nil {
			el = y.Elem
		} else {
			el = bs.Elem
		}
		return Sl{0, tm(f(Sc{T: y.Len, Sort: "Int"}, Sc{T: bs.Len, Sort: "Int"})), el}
	case Er:
		bs := b.(Er)
		n := f(Sc{T: y.Nil, Sort: "Bool"}, Sc{T: bs.Nil, Sort: "Bool"}).(Sc)
		k := f(Sc{T: y.Kind, Sort: "Int"}, Sc{T: bs.Kind, Sort: "Int"}).(Sc)
		return Er{n.T, k.T}
	case Opq, Coll, nil:
		return a
	}
	panic(fmt.Sprintf("zipLeaves %T", a))
}

// leaves lists (path, scalar) of every scalar leaf in a deterministic order.
func leaves(v Val, prefix string, out *[]leaf) {
	switch y := v.(type) {
	case Sc:
		*out = append(*out, leaf{prefix, y})
	case St:
		for _, k := range sortedKeys(y.F) {
			leaves(y.F[k], prefix+"."+k, out)
		}
	case Sl:
		*out = append(*out, leaf{prefix + ".len", Sc{T: y.Len, Sort: "Int"}})
		if y.Elem != nil {
			leaves(y.Elem, prefix+".e", out)
		}
	case Er:
		*out = append(*out, leaf{prefix + ".nil", Sc{T: y.Nil, Sort: "Bool"}}, leaf{prefix + ".kind", Sc{T: y.Kind, Sort: "Int"}})
	}
}

type leaf struct {
	Path string
	S    Sc
}

func tm(v Val) string {
	s, ok := v.(Sc)
	if !ok {
		panic(fmt.Sprintf("expected a scalar, got %T %v", v, v))
	}
	return s.T
}

func selV(v Val, idx string) Val {
	return mapLeaves(v, func(s Sc) Val {
		return Sc{T: sSel(s.T, idx), Sort: elemSort(s.Sort)}
	})
}

func stoV(arr, v Val, idx string) Val {
	return zipLeaves(arr, v, func(a, b Sc) Val { return Sc{T: sStore(a.T, idx, b.T), Sort: a.Sort} })
}

func iteV(c string, a, b Val) Val {
	if c == "true" {
		return a
	}
	if c == "false" {
		return b
	}
	return zipLeaves(a, b, func(x, y Sc) Val {
		n := ""
		if x.Nil != "" || y.Nil != "" {
			xn, yn := x.Nil, y.Nil
			if xn == "" {
				xn = "false"
			}
			if yn == "" {
				yn = "false"
			}
			n = sIte(c, xn, yn)
			if n == "false" {
				n = ""
			}
		}
		return Sc{T: sIte(c, x.T, y.T), Sort: x.Sort, Nil: n}
	})
}

// elemSort strips one array layer of a sort string "(Array K V)" -> V (best effort; only used for bookkeeping).
func elemSort(s string) string {
	if !strings.HasPrefix(s, "(Array ") {
		return s
	}
	body := s[len("(Array ") : len(s)-1]
	// skip the key sort
	d := 0
	for i := 0; i < len(body); i++ {
		switch body[i] {
		case '(':
			d++
		case ')':
			d--
		case ' ':
			if d == 0 {
				return body[i+1:]
			}
		}
	}
	return s
}

func pathGet(v Val, p []string) Val {
	for _, f := range p {
		st, ok := v.(St)
		if !ok {
			panic(fmt.Sprintf("path %v into %T", p, v))
		}
		nv, ok := st.F[f]
		if !ok {
			panic(fmt.Sprintf("no field %s (path %v) in %v", f, p, sortedKeys(st.F)))
		}
		v = nv
	}
	return v
}
func pathSet(v Val, p []string, nv Val) Val {
	if len(p) == 0 {
		return nv
	}
	s, ok := v.(St)
	if !ok {
		panic(fmt.Sprintf("pathSet %v into %T", p, v))
	}
	r := St{map[string]Val{}}
	for k, f := range s.F {
		r.F[k] = f
	}
	r.F[p[0]] = pathSet(s.F[p[0]], p[1:], nv)
	return r
}
func ap(p []string, f string) []string { return append(append([]string{}, p...), f) }

// eqV is the SMT formula "a and b are equal" (slices: same length and same elements below the length).
func (x *X) eqV(a, b Val) string {
	switch y := a.(type) {
	case Sc:
		bs, ok := b.(Sc)
		if !ok {
			panic(fmt.Sprintf("eqV: Sc vs %T", b))
		}
		return sEq(y.T, bs.T)
	case St:
		var cs []string
		bs := b.(St)
		for _, k := range sortedKeys(y.F) {
			cs = append(cs, x.eqV(y.F[k], bs.F[k]))
		}
		return sAnd(cs...)
	case Sl:
		// slices are equal when they have the same length and the same backing arrays (representation equality: stronger
		// than Go's element-wise equality, hence sound to assume only where it was proved; it holds for copies, which is
		// how the module passes slices around, and it keeps equalities quantifier-free)
		bs := b.(Sl)
		cs := []string{sEq(y.Len, bs.Len)}
		if y.Elem != nil && bs.Elem != nil {
			var la, lb []leaf
			leaves(y.Elem, "", &la)
			leaves(bs.Elem, "", &lb)
			if len(la) == len(lb) {
				for i := range la {
					cs = append(cs, sEq(la[i].S.T, lb[i].S.T))
				}
			}
		}
		return sAnd(cs...)
	case Er:
		bs := b.(Er)
		return sAnd(sEq(y.Nil, bs.Nil), sImp(sNot(y.Nil), sEq(y.Kind, bs.Kind)))
	case Opq, Coll, nil:
		return "true"
	}
	panic(fmt.Sprintf("eqV %T", a))
}

// selAll selects index idx from every leaf array of a record.
func (st St) selAll(idx string) St { return selV(st, idx).(St) }
