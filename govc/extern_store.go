package main

// Extern models of cosmossdk.io/collections (ghost store), x/bank and x/distribution.

import (
	"fmt"
	"go/types"
	"strings"

	"golang.org/x/tools/go/ssa"
)

const collP = "cosmossdk.io/collections."

func collOf(x *X, v Val) string {
	c, ok := v.(Coll)
	if !ok {
		x.fail("collection method on %T (not a Keeper field)", v)
	}
	return c.Name
}

// keyTerms turns a key value (scalar or Pair) into the list of key component terms.
func keyTerms(x *X, v Val) []string {
	switch k := v.(type) {
	case Sc:
		return []string{k.T}
	case St:
		if a, ok := k.F["k1"]; ok {
			return []string{tm(a), tm(k.F["k2"])}
		}
	}
	x.fail("collection key of kind %T", v)
	return nil
}

func init() {
	externs[collP+"Join"] = func(x *X, s *State, c *ssa.CallCommon, a []Val, call ssa.Value) (Val, bool) {
		return St{map[string]Val{"k1": a[0], "k2": a[1]}}, true
	}
	pureExterns[collP+"Join"] = true
	externs[collP+"NewPrefixedPairRange"] = func(x *X, s *State, c *ssa.CallCommon, a []Val, call ssa.Value) (Val, bool) {
		return St{map[string]Val{"prefix": a[0]}}, true
	}
	pureExterns[collP+"NewPrefixedPairRange"] = true
	pure("("+collP+"Pair).K1", func(x *X, s *State, a []Val) Val { return a[0].(St).F["k1"] })
	pure("("+collP+"Pair).K2", func(x *X, s *State, a []Val) Val { return a[0].(St).F["k2"] })

	externs["("+collP+"Map).Get"] = func(x *X, s *State, c *ssa.CallCommon, a []Val, call ssa.Value) (Val, bool) {
		name := collOf(x, a[0])
		g := s.ghost[name].(*GMap)
		rec := g.rec(keyTerms(x, a[2]))
		errV := Er{rec.Present, "ERR_NOTFOUND"}
		if name == "Auction" {
			r := rec.V.(St)
			kind := sIte(rec.Present, tm(r.F["Kind"]), "0")
			return Tuple{x.auctionFromRecord(s, r, kind), errV}, true
		}
		rt := c.Signature().Results().At(0).Type()
		return Tuple{iteV(rec.Present, rec.V, x.flat(s, x.zeroFlat(s, rt))), errV}, true
	}
	pureExterns["("+collP+"Map).Get"] = true
	externs["("+collP+"Map).Has"] = func(x *X, s *State, c *ssa.CallCommon, a []Val, call ssa.Value) (Val, bool) {
		g := s.ghost[collOf(x, a[0])].(*GMap)
		return Tuple{bv(g.rec(keyTerms(x, a[2])).Present), Er{"true", "0"}}, true
	}
	pureExterns["("+collP+"Map).Has"] = true
	externs["("+collP+"Map).Set"] = func(x *X, s *State, c *ssa.CallCommon, a []Val, call ssa.Value) (Val, bool) {
		name := collOf(x, a[0])
		g := s.ghost[name].(*GMap)
		keys := keyTerms(x, a[2])
		var v Val
		if name == "Auction" {
			iv, ok := a[3].(Iface)
			if !ok {
				x.fail("Auction.Set of %T", a[3])
			}
			x.emit(s, "nopanic", "nopanic.nilauction@"+x.site(s), nil, sNot(x.ifaceNil(iv)), "Auction.Set of a nil AuctionI")
			like := selV(g.Val, keys[0]).(St)
			v = x.auctionToRecord(s, iv, like)
			if s.dead {
				return nil, true
			}
		} else {
			v = x.flat(s, a[3])
		}
		x.checkNoNil(s, v, "store record "+name)
		s.ghost[name] = g.set(keys, v)
		t := x.tick(s)
		s.ghost["SetT"] = Sc{T: sStore(tm(s.ghost["SetT"]), fmt.Sprint(collOrd[name]), t), Sort: "(Array Int Int)"}
		return Er{"true", "0"}, true
	}
	externWrites["("+collP+"Map).Set"] = []string{"@recv"}
	externs["("+collP+"Map).Remove"] = func(x *X, s *State, c *ssa.CallCommon, a []Val, call ssa.Value) (Val, bool) {
		name := collOf(x, a[0])
		g := s.ghost[name].(*GMap)
		n := &GMap{Name: g.Name, KSorts: g.KSorts, Val: g.Val, Dom: storeNested(g.Dom, keyTerms(x, a[2]), "false")}
		s.ghost[name] = n
		x.tick(s)
		return Er{"true", "0"}, true
	}
	externWrites["("+collP+"Map).Remove"] = []string{"@recv"}
	externs["("+collP+"Item).Get"] = func(x *X, s *State, c *ssa.CallCommon, a []Val, call ssa.Value) (Val, bool) {
		name := collOf(x, a[0])
		rec := s.ghost[name].(GRec)
		return Tuple{rec.V, Er{rec.Present, "ERR_NOTFOUND"}}, true
	}
	pureExterns["("+collP+"Item).Get"] = true
	externs["("+collP+"Item).Set"] = func(x *X, s *State, c *ssa.CallCommon, a []Val, call ssa.Value) (Val, bool) {
		name := collOf(x, a[0])
		s.ghost[name] = GRec{Present: "true", V: x.flat(s, a[2])}
		t := x.tick(s)
		s.ghost["SetT"] = Sc{T: sStore(tm(s.ghost["SetT"]), fmt.Sprint(collOrd[name]), t), Sort: "(Array Int Int)"}
		return Er{"true", "0"}, true
	}
	externWrites["("+collP+"Item).Set"] = []string{"@recv"}
	externs["("+collP+"Sequence).Next"] = func(x *X, s *State, c *ssa.CallCommon, a []Val, call ssa.Value) (Val, bool) {
		name := collOf(x, a[0])
		cur := tm(s.ghost[name])
		s.ghost[name] = iv(wrapInt(sApp("+", cur, "1"), types.Typ[types.Uint64]))
		x.tick(s)
		return Tuple{iv(cur), Er{"true", "0"}}, true
	}
	externWrites["("+collP+"Sequence).Next"] = []string{"@recv"}
	externs["("+collP+"Sequence).Peek"] = func(x *X, s *State, c *ssa.CallCommon, a []Val, call ssa.Value) (Val, bool) {
		return Tuple{s.ghost[collOf(x, a[0])], Er{"true", "0"}}, true
	}
	pureExterns["("+collP+"Sequence).Peek"] = true
	externs["("+collP+"Sequence).Set"] = func(x *X, s *State, c *ssa.CallCommon, a []Val, call ssa.Value) (Val, bool) {
		s.ghost[collOf(x, a[0])] = a[2]
		x.tick(s)
		return Er{"true", "0"}, true
	}
	externWrites["("+collP+"Sequence).Set"] = []string{"@recv"}
	externs["("+collP+"Map).Walk"] = walkExtern
}

// zeroFlat: zero value of a record type as stored values (no nil flags; used only under "not present").
func (x *X) zeroFlat(s *State, t types.Type) Val {
	return mapLeaves(x.flat(s, x.zero(s, t, idWrap)), func(sc Sc) Val { return Sc{T: sc.T, Sort: sc.Sort, Nil: sc.Nil} })
}

// ---------------------------------------------------------------- bank and distribution

func coinsTerm(x *X, v Val) string {
	sc, ok := v.(Sc)
	if !ok {
		x.fail("expected sdk.Coins, got %T", v)
	}
	return sc.T
}

// transfer moves coins c from a to b in Bal when ok holds.
func (x *X) transfer(s *State, from, to, c, ok string) {
	bal := tm(s.ghost["Bal"])
	nb := x.sym("Bal", "(Array Addr (Array Str Int))")
	a, d := x.bound("a", "Addr"), x.bound("d", "Str")
	moved := fmt.Sprintf("(+ (- (select (select %s %s) %s) (ite (= %s %s) (select %s %s) 0)) (ite (= %s %s) (select %s %s) 0))",
		bal, a, d, a, from, c, d, a, to, c, d)
	s.assume(fmt.Sprintf("(forall ((%s Addr) (%s Str)) (! (= (select (select %s %s) %s) (ite %s %s (select (select %s %s) %s))) :pattern ((select (select %s %s) %s))))",
		a, d, nb, a, d, ok, moved, bal, a, d, nb, a, d))
	s.ghost["Bal"] = Sc{T: nb, Sort: "(Array Addr (Array Str Int))"}
}

func (x *X) sufficient(s *State, from, c string) string {
	d := x.bound("d", "Str")
	if strings.Contains(c, "(ite ") {
		return fmt.Sprintf("(forall ((%s Str)) (>= (select (select %s %s) %s) (select %s %s)))", d, tm(s.ghost["Bal"]), from, d, c, d)
	}
	return fmt.Sprintf("(forall ((%s Str)) (! (>= (select (select %s %s) %s) (select %s %s)) :pattern ((select %s %s))))", d, tm(s.ghost["Bal"]), from, d, c, d, c, d)
}

func (x *X) bankCall(s *State, name string, args []Val) Val {
	switch name {
	case "SpendableCoins", "GetAllBalances":
		// assumption: module escrow accounts hold no locked coins, so spendable = balance
		return Sc{T: sSel(tm(s.ghost["Bal"]), tm(args[1])), Sort: "Coins"}
	case "GetBalance":
		return St{map[string]Val{"Denom": args[2], "Amount": iv(sSel(sSel(tm(s.ghost["Bal"]), tm(args[1])), tm(args[2])))}}
	case "SendCoins":
		from, to, c := tm(args[1]), tm(args[2]), coinsTerm(x, args[3])
		inj := x.sym("bank.ok", "Bool") // any other reason the bank may refuse (send restrictions, blocked address): fault injection
		okT := sAnd(x.sufficient(s, from, c), inj)
		okS := x.sym("send.ok", "Bool")
		s.assume(sEq(okS, okT))
		x.transfer(s, from, to, c, okS)
		x.noteTransfer(s, inj)
		return Er{okS, x.sym("bank.errkind", "Int")}
	case "InputOutputCoins":
		in := args[1].(St)
		outs, ok := args[2].(Sl)
		if !ok {
			x.fail("InputOutputCoins outputs %T", args[2])
		}
		el := x.flat(s, x.slElem(s, outs))
		x.emit(s, "pre", "extern.InputOutputCoins.single-output@"+x.site(s), nil, sEq(outs.Len, "1"), "the bank model covers InputOutputCoins with exactly one output")
		s.assume(sEq(outs.Len, "1"))
		out := selV(el, "0").(St)
		from, to := sApp("addrOf", tm(in.F["Address"])), sApp("addrOf", tm(out.F["Address"]))
		c := tm(in.F["Coins"])
		inj := x.sym("bank.ok", "Bool")
		// bank requires sum(outputs) == input and valid addresses
		okT := sAnd(x.sufficient(s, from, c), sEq(c, tm(out.F["Coins"])), sApp("validAddr", tm(in.F["Address"])), sApp("validAddr", tm(out.F["Address"])), inj)
		okS := x.sym("io.ok", "Bool")
		s.assume(sEq(okS, okT))
		x.transfer(s, from, to, c, okS)
		x.noteTransfer(s, inj)
		return Er{okS, x.sym("bank.errkind", "Int")}
	}
	x.fail("BankKeeper.%s: no model", name)
	return nil
}

func (x *X) noteTransfer(s *State, inj string) {
	s.ghost["ExternOK"] = Sc{T: sAnd(tm(s.ghost["ExternOK"]), inj), Sort: "Bool"}
	s.ghost["XferN"] = iv(sApp("+", tm(s.ghost["XferN"]), "1"))
	s.ghost["XferT"] = iv(x.tick(s))
}

func (x *X) distrCall(s *State, name string, args []Val) Val {
	switch name {
	case "FundCommunityPool":
		c, from := coinsTerm(x, args[1]), tm(args[2])
		inj := x.sym("distr.ok", "Bool")
		okT := sAnd(x.sufficient(s, from, c), inj)
		okS := x.sym("fund.ok", "Bool")
		s.assume(sEq(okS, okT))
		// sender loses the coins, the community pool gains them
		bal := tm(s.ghost["Bal"])
		nb := x.sym("Bal", "(Array Addr (Array Str Int))")
		a, d := x.bound("a", "Addr"), x.bound("d", "Str")
		s.assume(fmt.Sprintf("(forall ((%s Addr) (%s Str)) (! (= (select (select %s %s) %s) (ite (and %s (= %s %s)) (- (select (select %s %s) %s) (select %s %s)) (select (select %s %s) %s))) :pattern ((select (select %s %s) %s))))",
			a, d, nb, a, d, okS, a, from, bal, a, d, c, d, bal, a, d, nb, a, d))
		s.ghost["Bal"] = Sc{T: nb, Sort: "(Array Addr (Array Str Int))"}
		pool := tm(s.ghost["Pool"])
		np := x.sym("Pool", "(Array Str Int)")
		s.assume(fmt.Sprintf("(forall ((%s Str)) (! (= (select %s %s) (ite %s (+ (select %s %s) (select %s %s)) (select %s %s))) :pattern ((select %s %s))))",
			d, np, d, okS, pool, d, c, d, pool, d, np, d))
		s.ghost["Pool"] = Sc{T: np, Sort: "(Array Str Int)"}
		x.noteTransfer(s, inj)
		return Er{okS, x.sym("distr.errkind", "Int")}
	}
	x.fail("DistrKeeper.%s: no model", name)
	return nil
}

func init() {
	for _, m := range []string{"SendCoins", "InputOutputCoins"} {
		invokeWrites[modTypes+".BankKeeper."+m] = []string{"Bal", "XferN", "XferT", "Clock", "ExternOK"}
	}
	invokeWrites[modTypes+".DistrKeeper.FundCommunityPool"] = []string{"Bal", "Pool", "XferN", "XferT", "Clock", "ExternOK"}
	_ = strings.Contains
}

// ---------------------------------------------------------------- Walk (virtual loop over the store listing)

type walkKont struct {
	call    ssa.Value
	ord     int
	idx     string
	invs    []*Clause
	extra   map[string]Val
	outerHd *ssa.BasicBlock
}

func walkExtern(x *X, s *State, c *ssa.CallCommon, a []Val, call ssa.Value) (Val, bool) {
	name := collOf(x, a[0])
	g := s.ghost[name].(*GMap)
	clo, ok := a[3].(Clo)
	if !ok {
		x.fail("Walk callback is %T", a[3])
	}
	ord, seen := x.walkIdx[call]
	if !seen {
		ord = len(x.walkIdx)
		x.walkIdx[call] = ord
	}
	invs := x.ct.Walks[ord]
	if len(invs) == 0 {
		x.fail("walk %d has no invariant", ord)
	}
	// listing of the range
	var n string
	var keyAt func(j string) []string
	prefixed := false
	rng := a[2]
	if iv, ok := rng.(Iface); ok {
		rng = iv.V
	}
	if _, isSt := rng.(St); !isSt && rng != nil {
		if _, isNilI := a[2].(Iface); !isNilI {
			if _, isOpq := rng.(Opq); !isOpq {
				x.fail("Walk with a range the engine does not model: %T", rng)
			}
		}
	}
	if st, ok := rng.(St); ok {
		if p, has := st.F["prefix"]; has {
			prefixed = true
			pk := tm(p)
			dom := sSel(g.Dom, pk)
			if g.KSorts[1] == "Addr" {
				n = sApp("listN", dom)
				keyAt = func(j string) []string { return []string{pk, sApp("listKey", dom, j)} }
			} else {
				n = sApp("ilistN", dom)
				keyAt = func(j string) []string { return []string{pk, sApp("ilistKey", dom, j)} }
			}
		}
	}
	if !prefixed {
		if len(g.KSorts) == 1 {
			n = sApp("ilistN", g.Dom)
			keyAt = func(j string) []string { return []string{sApp("ilistKey", g.Dom, j)} }
		} else {
			// whole collection with pair keys: an abstract ordered listing (schema T-schemas): fresh enumeration
			n = x.sym("walk.n", "Int")
			k1 := x.sym("walk.k1", arrSort("Int", g.KSorts[0]))
			k2 := x.sym("walk.k2", arrSort("Int", g.KSorts[1]))
			pos := x.declFun("walk.pos", []string{g.KSorts[0], g.KSorts[1]}, "Int")
			j, p, q := x.bound("j", "Int"), x.bound("p", g.KSorts[0]), x.bound("q", g.KSorts[1])
			s.assume(sApp(">=", n, "0"))
			s.assume(fmt.Sprintf("(forall ((%s Int)) (! (=> (and (<= 0 %s) (< %s %s)) (and (select (select %s (select %s %s)) (select %s %s)) (= (%s (select %s %s) (select %s %s)) %s))) :pattern ((select %s %s))))",
				j, j, j, n, g.Dom, k1, j, k2, j, pos, k1, j, k2, j, j, k1, j))
			s.assume(fmt.Sprintf("(forall ((%s %s) (%s %s)) (! (=> (select (select %s %s) %s) (and (<= 0 (%s %s %s)) (< (%s %s %s) %s) (= (select %s (%s %s %s)) %s) (= (select %s (%s %s %s)) %s))) :pattern ((%s %s %s))))",
				p, g.KSorts[0], q, g.KSorts[1], g.Dom, p, q, pos, p, q, pos, p, q, n, k1, pos, p, q, p, k2, pos, p, q, q, pos, p, q))
			if g.KSorts[0] == "Int" {
				// ascending in the first key component
				i2 := x.bound("i", "Int")
				s.assume(fmt.Sprintf("(forall ((%s Int) (%s Int)) (! (=> (and (<= 0 %s) (< %s %s) (< %s %s)) (<= (select %s %s) (select %s %s))) :pattern ((select %s %s) (select %s %s))))",
					i2, j, i2, i2, j, j, n, k1, i2, k1, j, k1, i2, k1, j))
				if g.KSorts[1] == "Int" {
					// lexicographic: within one first component, ascending in the second
					s.assume(fmt.Sprintf("(forall ((%s Int) (%s Int)) (! (=> (and (<= 0 %s) (< %s %s) (< %s %s) (= (select %s %s) (select %s %s))) (< (select %s %s) (select %s %s))) :pattern ((select %s %s) (select %s %s))))",
						i2, j, i2, i2, j, j, n, k1, i2, k1, j, k2, i2, k2, j, k2, i2, k2, j))
				}
			}
			keyAt = func(jj string) []string { return []string{sSel(k1, jj), sSel(k2, jj)} }
			s.lets[fmt.Sprintf("walkPos%d", ord)] = Opq{"fn:" + pos}
		}
	}
	s.assume(fmt.Sprintf("(< %s 281474976710656)", n))
	s.lets[fmt.Sprintf("walkN%d", ord)] = iv(n) // the listing length, for clauses after the walk
	valAt := func(j string) Val { return g.rec(keyAt(j)).V }
	var extraAt0 func(idx string) map[string]Val
	extraAt := func(idx string) map[string]Val {
		m := extraAt0(idx)
		for i, fv := range clo.Fn.FreeVars {
			if p, ok := clo.Bind[i].(Ptr); ok {
				m[fv.Name()] = CellRef{p}
			}
		}
		return m
	}
	extraAt0 = func(idx string) map[string]Val {
		return map[string]Val{"idx": iv(idx), "walkN": iv(n), "walkKey": WalkFn{func(j string) Val {
			ks := keyAt(j)
			if len(ks) == 1 {
				return iv(ks[0])
			}
			return St{map[string]Val{"k1": Sc{T: ks[0], Sort: g.KSorts[0]}, "k2": Sc{T: ks[1], Sort: g.KSorts[1]}}}
		}}, "walkVal": WalkFn{valAt}}
	}
	hd := (*ssa.BasicBlock)(nil)
	// init
	for k, cl := range invs {
		gl := x.evalClause(s, cl, evalCtx{extra: extraAt("0"), loopHeader: hd})
		x.emit(s, "invariant.init", fmt.Sprintf("walk%d.inv%d.init", ord, k), cl.Labels, gl, cl.Text)
	}
	// havoc the captured cells the callback writes
	for bi, b := range clo.Bind {
		if p, ok := b.(Ptr); ok && p.Obj != 0 && closureWrites(clo.Fn, bi) {
			if flds, indirect, precise := closureWrittenFields(clo.Fn, bi); precise {
				// the callback writes only these fields of the captured struct pointer
				tp := p
				if indirect {
					q, isP := pathGet(s.objs[p.Obj], p.Path).(Ptr)
					if !isP || q.Obj == 0 {
						x.fail("Walk callback writes through a captured pointer the engine cannot resolve")
					}
					tp = q
				}
				for _, f := range flds {
					fp := append(append([]string{}, tp.Path...), f)
					cur := pathGet(s.objs[tp.Obj], fp)
					s.objs[tp.Obj] = pathSet(s.objs[tp.Obj], fp, x.havocLike(s, "w.cell", nil, cur))
				}
				continue
			}
			cur := pathGet(s.objs[p.Obj], p.Path)
			s.objs[p.Obj] = pathSet(s.objs[p.Obj], p.Path, x.havocLike(s, "w.cell", nil, cur))
		}
	}
	idx := x.sym("walk.idx", "Int")
	s.assume(fmt.Sprintf("(and (<= 0 %s) (<= %s %s))", idx, idx, n))
	// exit state: invariant at n
	sx := s.clone()
	sx.assume(sEq(idx, n))
	for _, cl := range invs {
		sx.assumeG(cl.Group, x.evalClause(sx, cl, evalCtx{extra: extraAt(idx), assuming: true}))
	}
	// reachability witness: the state after the walk must admit a non-empty listing (guards against an invariant or a
	// havoc that silently pins the listing to the empty one)
	{
		wo := &Oblig{Name: fmt.Sprintf("%s#vacuity.walk%d-exit-nonempty.%d", x.key, ord, len(x.obligs)), Fn: x.key, Kind: "vacuity", Goal: "false",
			PC: append(visiblePC(sx.pc, ""), sApp(">", n, "0")), Vacuity: true}
		wo.Decls = x.decls[:len(x.decls):len(x.decls)]
		x.obligs = append(x.obligs, wo)
	}
	// iteration state
	s.assume(sApp("<", idx, n))
	for _, cl := range invs {
		s.assumeG(cl.Group, x.evalClause(s, cl, evalCtx{extra: extraAt(idx), assuming: true}))
	}
	ks := keyAt(idx)
	var keyV Val
	if len(ks) == 1 {
		keyV = iv(ks[0])
	} else {
		keyV = St{map[string]Val{"k1": Sc{T: ks[0], Sort: g.KSorts[0]}, "k2": Sc{T: ks[1], Sort: g.KSorts[1]}}}
	}
	var valV Val = valAt(idx)
	if name == "Auction" {
		r := valV.(St)
		valV = x.auctionFromRecord(s, r, tm(r.F["Kind"]))
	}
	// presence of the visited entry is a listing fact
	s.assume(g.rec(ks).Present)
	x.pushFrame(s, clo.Fn, []Val{keyV, valV}, clo.Bind, nil, &walkKont{call: call, ord: ord, idx: idx, invs: invs, extra: extraAt(sApp("+", idx, "1"))})
	x.exec(s)
	// continue the caller after the loop
	fr := sx.top()
	fr.env[call] = Er{"true", "0"}
	fr.idx++
	x.exec(sx)
	return nil, false
}

// WalkFn gives contract access to the listing: walkKey(j), walkVal(j).
type WalkFn struct{ F func(j string) Val }

func closureWrites(fn *ssa.Function, bi int) bool {
	fv := fn.FreeVars[bi]
	if refs := fv.Referrers(); refs != nil {
		for _, r := range *refs {
			switch r.(type) {
			case *ssa.Store, *ssa.FieldAddr, *ssa.IndexAddr, *ssa.UnOp:
				// stored to directly, or a loaded pointer (e.g. the genesis object) that may be written through
				if _, isLoad := r.(*ssa.UnOp); isLoad {
					if _, ptr := fv.Type().(*types.Pointer).Elem().Underlying().(*types.Pointer); !ptr {
						continue
					}
				}
				return true
			}
		}
	}
	return false
}

// closureWrittenFields: when the captured variable is a pointer to a struct (or, for a variable captured by reference,
// a pointer to such a pointer that the callback only loads) used only through field addresses that are loaded or
// stored directly, the set of fields stored to. indirect reports the by-reference case.
func closureWrittenFields(fn *ssa.Function, bi int) (flds []string, indirect bool, precise bool) {
	fv := fn.FreeVars[bi]
	pt, ok := fv.Type().Underlying().(*types.Pointer)
	if !ok {
		return nil, false, false
	}
	var roots []ssa.Value
	st, ok := pt.Elem().Underlying().(*types.Struct)
	if ok {
		roots = []ssa.Value{fv}
	} else {
		pt2, ok2 := pt.Elem().Underlying().(*types.Pointer)
		if !ok2 {
			return nil, false, false
		}
		st, ok = pt2.Elem().Underlying().(*types.Struct)
		if !ok {
			return nil, false, false
		}
		indirect = true
		if refs := fv.Referrers(); refs != nil {
			for _, r := range *refs {
				switch u := r.(type) {
				case *ssa.UnOp:
					roots = append(roots, u)
				case *ssa.DebugRef:
				default:
					return nil, false, false // the variable itself is reassigned or escapes
				}
			}
		}
	}
	seen := map[string]bool{}
	for _, root := range roots {
		refs := root.Referrers()
		if refs == nil {
			continue
		}
		for _, r := range *refs {
			fa, ok := r.(*ssa.FieldAddr)
			if !ok {
				if _, dbg := r.(*ssa.DebugRef); dbg {
					continue
				}
				return nil, false, false
			}
			frefs := fa.Referrers()
			if frefs == nil {
				continue
			}
			for _, fr := range *frefs {
				switch u := fr.(type) {
				case *ssa.UnOp: // load
				case *ssa.DebugRef:
				case *ssa.Store:
					if u.Addr != fa {
						return nil, false, false
					}
					name := st.Field(fa.Field).Name()
					if !seen[name] {
						seen[name] = true
						flds = append(flds, name)
					}
				default:
					return nil, false, false
				}
			}
		}
	}
	return flds, indirect, true
}

func (k *walkKont) resume(x *X, s *State, res []Val) {
	// callback returned (stop bool, err error)
	stop, err := tm(res[0]), res[1].(Er)
	cont := sAnd(sNot(stop), err.Nil)
	if cont != "true" {
		// early exit: Walk returns the callback's error (or nil when stopped)
		s2 := s.clone()
		s2.assume(sNot(cont))
		fr := s2.top()
		fr.env[k.call] = err
		fr.idx++
		x.exec(s2)
		s.assume(cont)
	}
	for n, cl := range k.invs {
		g := x.evalClause(s, cl, evalCtx{extra: k.extra})
		x.emit(s, "invariant.preserve", fmt.Sprintf("walk%d.inv%d.preserve", k.ord, n), cl.Labels, g, cl.Text)
	}
	x.paths++
}

// CellRef names a captured variable in walk invariants: its value is read from the state at evaluation time.
type CellRef struct{ P Ptr }

// ---------------------------------------------------------------- query pagination (schema T-schemas)

// CollectionPaginate / CollectionFilteredPaginate: the result is the image, under the transform closure, of a page of
// the collection's ordered listing, restricted (filtered variant) to the entries the predicate closure accepts. The
// page boundaries are not modelled: the contract obtained is "every returned element is transform(k, v) of a stored
// entry (k, v) accepted by the predicate, in ascending key order", plus nothing about completeness of a page.
func init() {
	const q = "github.com/cosmos/cosmos-sdk/types/query."
	externs[q+"CollectionPaginate"] = func(x *X, s *State, c *ssa.CallCommon, a []Val, call ssa.Value) (Val, bool) {
		return x.paginate(s, c, a[1], nil, a[3]), true
	}
	externs[q+"CollectionFilteredPaginate"] = func(x *X, s *State, c *ssa.CallCommon, a []Val, call ssa.Value) (Val, bool) {
		return x.paginate(s, c, a[1], a[3], a[4]), true
	}
}

func (x *X) paginate(s *State, c *ssa.CallCommon, collV Val, pred, trans Val) Val {
	name := collOf(x, collV)
	g := s.ghost[name].(*GMap)
	n := x.sym("page.n", "Int")
	s.assume(fmt.Sprintf("(and (<= 0 %s) (< %s 281474976710656))", n, n))
	// keys of the returned entries, as functions of the position
	var keyArrs []string
	for i, ks := range g.KSorts {
		keyArrs = append(keyArrs, x.sym(fmt.Sprintf("page.k%d", i+1), arrSort("Int", ks)))
	}
	keysAt := func(j string) []string {
		var ks []string
		for _, ka := range keyArrs {
			ks = append(ks, sSel(ka, j))
		}
		return ks
	}
	j := x.bound("j", "Int")
	inRange := fmt.Sprintf("(and (<= 0 %s) (< %s %s))", j, j, n)
	s.assume(fmt.Sprintf("(forall ((%s Int)) (! (=> %s %s) :pattern (%s)))", j, inRange, g.rec(keysAt(j)).Present, sSel(keyArrs[0], j)))
	// apply a closure to an arbitrary listed entry (position jj): every path through it gives (path condition, results)
	type outcome struct {
		cond string
		res  []Val
	}
	apply := func(clo Val, jj string) []outcome {
		cl, ok := clo.(Clo)
		if fv, isFn := clo.(FnVal); isFn {
			cl, ok = Clo{Fn: fv.Fn}, true
		}
		if !ok {
			x.fail("pagination callback is %T", clo)
		}
		ks := keysAt(jj)
		var keyV Val
		if len(ks) == 1 {
			keyV = Sc{T: ks[0], Sort: g.KSorts[0]}
		} else {
			keyV = St{map[string]Val{"k1": Sc{T: ks[0], Sort: g.KSorts[0]}, "k2": Sc{T: ks[1], Sort: g.KSorts[1]}}}
		}
		s2 := s.clone()
		var valV Val = g.rec(ks).V
		if name == "Auction" {
			r := valV.(St)
			valV = x.auctionFromRecord(s2, r, tm(r.F["Kind"]))
		}
		base := len(s2.pc)
		var outs []outcome
		x.pushFrame(s2, cl.Fn, []Val{keyV, valV}, cl.Bind, nil, &captureKont{fn: func(st *State, res []Val) {
			var flat []Val
			for _, r := range res {
				flat = append(flat, x.flat(st, r))
			}
			outs = append(outs, outcome{sAnd(visiblePC(st.pc[base:], "")...), flat})
		}})
		x.noAbbrev++
		x.exec(s2)
		x.noAbbrev--
		return outs
	}
	jj := x.sym("page.j", "Int")
	s.assume(g.rec(keysAt(jj)).Present) // the generic position denotes a listed entry while the callbacks are explored
	if pred != nil {
		var accepted []string
		for _, o := range apply(pred, jj) {
			accepted = append(accepted, sAnd(o.cond, tm(o.res[0])))
		}
		// every returned entry was accepted by the predicate (stated for the generic position jj, generalised)
		s.assume(generalise(fmt.Sprintf("(=> (and (<= 0 %s) (< %s %s)) %s)", jj, jj, n, sOr(accepted...)), jj, x.bound("j", "Int")))
	}
	outs := apply(trans, jj)
	rt := c.Signature().Results().At(0).Type().Underlying().(*types.Slice)
	res := x.mk(s, "page.results", rt.Elem(), func(so string) string { return arrSort("Int", so) }, true)
	for _, o := range outs {
		elem := o.res[0]
		if _, isOpq := elem.(Opq); isOpq {
			continue
		}
		if _, isPtr := elem.(Ptr); isPtr {
			continue
		}
		if _, isOpq := res.(Opq); isOpq {
			continue
		}
		errNil := "true"
		if len(o.res) > 1 {
			if e, ok := o.res[1].(Er); ok {
				errNil = e.Nil
			}
		}
		eq := x.eqV(selV(res, jj), elem)
		s.assume(generalise(fmt.Sprintf("(=> (and (<= 0 %s) (< %s %s) %s %s) %s)", jj, jj, n, o.cond, errNil, eq), jj, x.bound("j", "Int")))
	}
	id := x.newID()
	s.arrs[id] = res
	return Tuple{Sl{id, n, nil}, Opq{"PageResponse"}, Er{x.sym("page.ok", "Bool"), x.sym("page.errkind", "Int")}}
}

// generalise turns a fact about the fresh constant c into the universally quantified fact over v.
func generalise(f, c, v string) string {
	return fmt.Sprintf("(forall ((%s Int)) %s)", v, strings.ReplaceAll(f, c, v))
}

type captureKont struct{ fn func(*State, []Val) }

func (k *captureKont) resume(x *X, s *State, res []Val) { k.fn(s, res); x.paths++ }

// ---------------------------------------------------------------- sort.Search (schema T-schemas: binary search)

// sort.Search(n, f) with a closure f whose result is specified by "search k predicate P(idxS)" and whose effect on the
// captured variables by "search k invariant J(hiS)" (J(n) holds before the call; after a call at index h that returned
// true J(h) holds, after one that returned false the state still satisfies the J it had). Obligations: P is monotone
// on [0,n) (false then true), J(n) initially, and for one symbolic call at any index h of a symbolic window
// lo <= h < hi: the closure returns exactly P(h) and re-establishes J as described. Under these, binary search returns
// the least index r in [0,n] with P(r) (n if none) and leaves the captured variables in a state satisfying J(r): the
// last call that returned true was made at r. That step (the loop of sort.Search itself) is the trusted schema.
type searchKont struct {
	call  ssa.Value
	ord   int
	pred  *Clause
	invs  []*Clause
	h, hi string
	extra func(idxS, hiS string) map[string]Val
}

func init() {
	externs["sort.Search"] = func(x *X, s *State, c *ssa.CallCommon, a []Val, call ssa.Value) (Val, bool) {
		clo, ok := a[1].(Clo)
		if !ok {
			x.fail("sort.Search callback is %T", a[1])
		}
		if x.searchIdx == nil {
			x.searchIdx = map[ssa.Value]int{}
		}
		ord, seen := x.searchIdx[call]
		if !seen {
			ord = len(x.searchIdx)
			x.searchIdx[call] = ord
		}
		var pred *Clause
		var invs []*Clause
		for _, cl := range x.ct.Searches[ord] {
			if cl.Kind == "predicate" {
				pred = cl
			} else {
				invs = append(invs, cl)
			}
		}
		if pred == nil {
			x.fail("search %d has no predicate clause", ord)
		}
		n := tm(a[0])
		extra := func(idxS, hiS string) map[string]Val {
			m := map[string]Val{"idxS": iv(idxS), "hiS": iv(hiS), "nS": iv(n)}
			for i, fv := range clo.Fn.FreeVars {
				if p, ok := clo.Bind[i].(Ptr); ok {
					m[fv.Name()] = CellRef{p}
				} else {
					m[fv.Name()] = clo.Bind[i]
				}
			}
			return m
		}
		P := func(st *State, t string, assuming bool) string {
			return x.evalClause(st, pred, evalCtx{extra: extra(t, n), assuming: assuming})
		}
		// J(n) holds before the search (checked, then available: its state-independent conjuncts, e.g. well-formedness
		// of the order book, are needed to show that the predicate is monotone)
		sInit := s.clone()
		for k, cl := range invs {
			g := x.evalClause(sInit, cl, evalCtx{extra: extra(n, n)})
			x.emit(sInit, "search", fmt.Sprintf("search%d.inv%d.init", ord, k), cl.Labels, g, cl.Text)
			sInit.assumeG(cl.Group, g) // established: available to the clauses that follow (they are checked in order)
		}
		sMono := s.clone()
		for _, cl := range invs {
			sMono.assumeG(cl.Group, x.evalClause(sMono, cl, evalCtx{extra: extra(n, n), assuming: true}))
		}
		// monotone: false ... false true ... true
		{
			ia, ib := x.bound("a", "Int"), x.bound("b", "Int")
			g := fmt.Sprintf("(forall ((%s Int) (%s Int)) (=> (and (<= 0 %s) (< %s %s) (< %s %s) %s) %s))", ia, ib, ia, ia, ib, ib, n, P(sMono, ia, true), P(sMono, ib, true))
			x.lastGroup = pred.Group
			x.emit(sMono, "search", fmt.Sprintf("search%d.predicate-monotone", ord), pred.Labels, g, "the search predicate is monotone: "+pred.Text)
		}
		// havoc the captured cells the callback assigns
		for bi, b := range clo.Bind {
			p, ok := b.(Ptr)
			if !ok || p.Obj == 0 || !closureAssigns(clo.Fn, bi) {
				continue
			}
			cur := pathGet(s.objs[p.Obj], p.Path)
			var nv Val
			if _, isPtr := cur.(Ptr); isPtr {
				nv = x.mk(s, "search.cell", clo.Fn.FreeVars[bi].Type().(*types.Pointer).Elem(), idWrap, false)
			} else {
				nv = x.havocLike(s, "search.cell", nil, cur)
			}
			s.objs[p.Obj] = pathSet(s.objs[p.Obj], p.Path, nv)
		}
		s.assume(fmt.Sprintf("(and (<= 0 %s) (< %s 9223372036854775807))", n, n))
		// continuation: the state after the search
		sx := s.clone()
		r := x.sym("search.result", "Int")
		sx.assume(fmt.Sprintf("(and (<= 0 %s) (<= %s %s))", r, r, n))
		{
			iq := x.bound("q", "Int")
			sx.assumeG(pred.Group, fmt.Sprintf("(forall ((%s Int)) (=> (and (<= 0 %s) (< %s %s)) (not %s)))", iq, iq, iq, r, P(sx, iq, true)))
			sx.assumeG(pred.Group, sImp(sApp("<", r, n), P(sx, r, true)))
		}
		for _, cl := range invs {
			sx.assumeG(cl.Group, x.evalClause(sx, cl, evalCtx{extra: extra(r, r), assuming: true}))
		}
		// one symbolic call inside a symbolic window
		h, hi := x.sym("search.h", "Int"), x.sym("search.hi", "Int")
		s.assume(fmt.Sprintf("(and (<= 0 %s) (< %s %s) (<= %s %s))", h, h, hi, hi, n))
		for _, cl := range invs {
			s.assumeG(cl.Group, x.evalClause(s, cl, evalCtx{extra: extra(hi, hi), assuming: true}))
		}
		x.pushFrame(s, clo.Fn, []Val{iv(h)}, clo.Bind, nil, &searchKont{call: call, ord: ord, pred: pred, invs: invs, h: h, hi: hi, extra: extra})
		x.exec(s)
		fr := sx.top()
		fr.env[call] = iv(r)
		fr.idx++
		x.exec(sx)
		return nil, false
	}
}

// closureAssigns: the callback stores to the captured variable itself (not merely through it).
func closureAssigns(fn *ssa.Function, bi int) bool {
	fv := fn.FreeVars[bi]
	if refs := fv.Referrers(); refs != nil {
		for _, r := range *refs {
			if st, ok := r.(*ssa.Store); ok && st.Addr == fv {
				return true
			}
		}
	}
	return false
}

func (k *searchKont) resume(x *X, s *State, res []Val) {
	r := tm(res[0])
	p := x.evalClause(s, k.pred, evalCtx{extra: k.extra(k.h, k.hi)})
	x.emit(s, "search", fmt.Sprintf("search%d.callback-computes-the-predicate", k.ord), k.pred.Labels, sEq(r, p), k.pred.Text)
	for n, cl := range k.invs {
		gt := x.evalClause(s, cl, evalCtx{extra: k.extra(k.h, k.h)})
		x.emit(s, "search", fmt.Sprintf("search%d.inv%d.after-true", k.ord, n), cl.Labels, sImp(r, gt), cl.Text)
		gf := x.evalClause(s, cl, evalCtx{extra: k.extra(k.hi, k.hi)})
		x.emit(s, "search", fmt.Sprintf("search%d.inv%d.after-false", k.ord, n), cl.Labels, sImp(sNot(r), gf), cl.Text)
	}
	x.paths++
}
