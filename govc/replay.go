package main

// Replay of a counterexample on the real code. For an obligation of a function whose parameters and results are
// scalars or records of scalars (no pointers, slices, maps or store state), a model of the quantifier-free refutation
// query gives concrete inputs and the outputs the engine predicts for them. A Go test injected with `go test -overlay`
// calls the real function (of the current tree, including the overlay of a mutant run) on those inputs; if the real
// outputs equal the predicted ones, the input is a confirmed counterexample: the real code returns outputs for which
// the clause is false. Otherwise no failing input is claimed.

import (
	"bytes"
	"encoding/json"
	"fmt"
	"go/types"
	"os"
	"os/exec"
	"path/filepath"
	"regexp"
	"sort"
	"strings"

	"golang.org/x/tools/go/ssa"
)

type ReplayInfo struct {
	Fn      *ssa.Function
	Params  []Val
	Results []Val
}

type leafRef struct {
	path string // e.g. "p0.Coin.Amount", "r1"
	sc   Sc
}

func collectLeaves(prefix string, v Val, out *[]leafRef) bool {
	switch w := v.(type) {
	case Sc:
		*out = append(*out, leafRef{prefix, w})
		return true
	case St:
		keys := make([]string, 0, len(w.F))
		for k := range w.F {
			keys = append(keys, k)
		}
		sort.Strings(keys)
		for _, k := range keys {
			if !collectLeaves(prefix+"."+k, w.F[k], out) {
				return false
			}
		}
		return true
	case Er:
		*out = append(*out, leafRef{prefix + ".isnil", Sc{T: w.Nil, Sort: "Bool"}})
		return true
	case Sl:
		// the length now; the elements once the length is known (second model query)
		if w.ID != 0 || w.Elem == nil {
			return false
		}
		if _, opq := w.Elem.(Opq); opq {
			return false
		}
		if _, ia := w.Elem.(IfaceArr); ia {
			return false
		}
		*out = append(*out, leafRef{prefix + ".len", Sc{T: w.Len, Sort: "Int"}})
		return true
	}
	return false
}

// sliceElems collects, for every slice among the values, the leaves of its first n elements (n from the model).
func sliceElems(v Val, vals map[string]string, out *[]leafRef) bool {
	switch w := v.(type) {
	case St:
		for _, f := range w.F {
			if !sliceElems(f, vals, out) {
				return false
			}
		}
	case Sl:
		n, ok := smtInt(vals[w.Len])
		if !ok && isDigits(w.Len) {
			n, ok = w.Len, true
		}
		if !ok {
			return false
		}
		var k int
		fmt.Sscan(n, &k)
		if k < 0 || k > 6 {
			return false
		}
		for i := 0; i < k; i++ {
			e := selV(w.Elem, fmt.Sprint(i))
			if !collectLeaves("e", e, out) || !sliceElems(e, vals, out) {
				return false
			}
		}
	}
	return true
}

var valueLine = regexp.MustCompile(`^\(?\((\|[^|]*\||[^ ()]+) (.*)\)\)?$`)

// modelValues asks z3 for the values of the given terms in a model of the query (which must be satisfiable).
func modelValues(query string, terms []string, dir string) (map[string]string, bool) {
	q := strings.Replace(query, "(check-sat)\n", "", 1)
	var b strings.Builder
	b.WriteString("(set-option :produce-models true)\n")
	b.WriteString(q)
	b.WriteString("(check-sat)\n")
	for i, t := range terms {
		fmt.Fprintf(&b, "(define-fun rv%d () %s %s)\n", i, "Int", "0") // placeholder to keep numbering readable
		_ = t
	}
	// one get-value per term keeps the answers separable
	b.Reset()
	b.WriteString("(set-option :produce-models true)\n")
	b.WriteString(q)
	b.WriteString("(check-sat)\n")
	for _, t := range terms {
		fmt.Fprintf(&b, "(get-value (%s))\n", t)
	}
	f := filepath.Join(dir, "model-query.smt2")
	os.WriteFile(f, []byte(b.String()), 0o644)
	cmd := exec.Command("z3-new", "-T:20", f)
	var out bytes.Buffer
	cmd.Stdout, cmd.Stderr = &out, &out
	cmd.Run()
	lines := strings.Split(strings.TrimSpace(out.String()), "\n")
	if len(lines) == 0 || strings.TrimSpace(lines[0]) != "sat" {
		return nil, false
	}
	os.WriteFile(filepath.Join(dir, "model.txt"), out.Bytes(), 0o644)
	vals := map[string]string{}
	// answers come in order, one (possibly multi-line) s-expression per get-value
	rest := strings.Join(lines[1:], " ")
	for _, t := range terms {
		rest = strings.TrimSpace(rest)
		if !strings.HasPrefix(rest, "((") {
			return nil, false
		}
		d, j := 0, 0
		for j = 0; j < len(rest); j++ {
			if rest[j] == '|' {
				k := strings.IndexByte(rest[j+1:], '|')
				if k < 0 {
					return nil, false
				}
				j += k + 1
				continue
			}
			if rest[j] == '(' {
				d++
			}
			if rest[j] == ')' {
				d--
				if d == 0 {
					break
				}
			}
		}
		ans := rest[:j+1]
		rest = rest[j+1:]
		// ((term value)) : the value is the last top-level element of the inner list
		inner := strings.TrimSpace(ans[1 : len(ans)-1])
		inner = strings.TrimSpace(inner[1 : len(inner)-1])
		parts := splitTop(inner)
		if len(parts) < 2 {
			return nil, false
		}
		vals[t] = parts[len(parts)-1]
	}
	return vals, true
}

func smtInt(v string) (string, bool) {
	v = strings.TrimSpace(v)
	if strings.HasPrefix(v, "(- ") && strings.HasSuffix(v, ")") {
		n := strings.TrimSpace(v[3 : len(v)-1])
		if isDigits(n) {
			return "-" + n, true
		}
		return "", false
	}
	if isDigits(v) {
		return v, true
	}
	return "", false
}

func isDigits(s string) bool {
	if s == "" {
		return false
	}
	for _, c := range s {
		if c < '0' || c > '9' {
			return false
		}
	}
	return true
}

// goLiteral renders a Go expression of type t from the model values of the leaves under path.
func (V *Verifier) goLiteral(t types.Type, path string, v Val, vals map[string]string, strs map[string]string, imports map[string]bool) (string, bool) {
	n := namedOf(t)
	get := func(sc Sc) (string, bool) { x, ok := vals[sc.T]; return x, ok }
	switch n {
	case tyInt:
		sc, ok := v.(Sc)
		if !ok {
			return "", false
		}
		if sc.Nil != "" && sc.Nil != "false" {
			if nv, ok := vals[sc.Nil]; ok && nv == "true" {
				return "math.Int{}", true
			}
		}
		x, ok := get(sc)
		if !ok {
			return "", false
		}
		i, ok := smtInt(x)
		if !ok {
			return "", false
		}
		imports["cosmossdk.io/math"] = true
		return fmt.Sprintf("replayInt(%q)", i), true
	case tyDec:
		sc, ok := v.(Sc)
		if !ok {
			return "", false
		}
		x, ok := get(sc)
		if !ok {
			return "", false
		}
		i, ok := smtInt(x)
		if !ok {
			return "", false
		}
		imports["cosmossdk.io/math"] = true
		return fmt.Sprintf("replayDec(%q)", i), true
	case tyTime:
		sc, ok := v.(Sc)
		if !ok {
			return "", false
		}
		x, ok := get(sc)
		if !ok {
			return "", false
		}
		i, ok := smtInt(x)
		if !ok {
			return "", false
		}
		imports["time"] = true
		return fmt.Sprintf("replayTime(%q)", i), true
	}
	switch u := t.Underlying().(type) {
	case *types.Basic:
		sc, ok := v.(Sc)
		if !ok {
			return "", false
		}
		x, ok := get(sc)
		if !ok {
			return "", false
		}
		switch {
		case u.Info()&types.IsInteger != 0:
			i, ok := smtInt(x)
			if !ok {
				return "", false
			}
			return fmt.Sprintf("%s(%s)", types.TypeString(t, V.qualifier), i), true
		case u.Info()&types.IsBoolean != 0:
			return x, x == "true" || x == "false"
		case u.Info()&types.IsString != 0:
			// strings are abstract in the model: distinct model values become distinct Go strings, literals keep their text
			if lit, ok := V.strName[x]; ok {
				return fmt.Sprintf("%q", lit), true
			}
			if _, ok := strs[x]; !ok {
				strs[x] = fmt.Sprintf("s%d", len(strs))
				switch {
				case vals["(validAddr "+sc.T+")"] == "true":
					strs[x] = fmt.Sprintf("\x00replayAddr(%d)", len(strs))
				case vals["(validDenom "+sc.T+")"] == "true":
					strs[x] = fmt.Sprintf("rdenom%c", 'a'+len(strs)%26)
				}
			}
			if strings.HasPrefix(strs[x], "\x00") {
				imports["\x00addr"] = true
				return strs[x][1:], true
			}
			return fmt.Sprintf("%q", strs[x]), true
		}
		return "", false
	case *types.Slice:
		sl, ok := v.(Sl)
		if !ok {
			return "", false
		}
		n, ok := smtInt(vals[sl.Len])
		if !ok && isDigits(sl.Len) {
			n, ok = sl.Len, true
		}
		if !ok {
			return "", false
		}
		var k int
		fmt.Sscan(n, &k)
		var es []string
		for i := 0; i < k; i++ {
			lit, ok := V.goLiteral(u.Elem(), fmt.Sprintf("%s[%d]", path, i), selV(sl.Elem, fmt.Sprint(i)), vals, strs, imports)
			if !ok {
				return "", false
			}
			es = append(es, lit)
		}
		return types.TypeString(t, V.qualifier) + "{" + strings.Join(es, ", ") + "}", true
	case *types.Struct:
		st, ok := v.(St)
		if !ok {
			return "", false
		}
		var fs []string
		for i := 0; i < u.NumFields(); i++ {
			f := u.Field(i)
			fv, has := st.F[f.Name()]
			if !has {
				continue
			}
			lit, ok := V.goLiteral(f.Type(), path+"."+f.Name(), fv, vals, strs, imports)
			if !ok {
				return "", false
			}
			fs = append(fs, f.Name()+": "+lit)
		}
		return types.TypeString(t, V.qualifier) + "{" + strings.Join(fs, ", ") + "}", true
	}
	return "", false
}

func (V *Verifier) qualifier(p *types.Package) string {
	if p.Path() == V.replayPkg {
		return ""
	}
	if V.replayImports == nil {
		V.replayImports = map[string]string{}
	}
	if a, ok := V.replayImports[p.Path()]; ok {
		return a
	}
	a := fmt.Sprintf("pkg%d", len(V.replayImports))
	V.replayImports[p.Path()] = a
	return a
}

// tryReplay: see the file comment. Returns true when the counterexample was confirmed on the real code.
func (V *Verifier) tryReplay(prop string, o *Oblig, dir string) bool {
	ri := o.Replay
	if ri == nil || o.Vacuity || ri.Fn == nil || ri.Fn.Pkg == nil {
		return false
	}
	if strings.Contains(o.Goal, "(forall ") || strings.Contains(o.Goal, "(exists ") {
		return false
	}
	var leaves []leafRef
	for i, p := range ri.Params {
		if !collectLeaves(fmt.Sprintf("p%d", i), p, &leaves) {
			return false
		}
	}
	nIn := len(leaves)
	for i, r := range ri.Results {
		if !collectLeaves(fmt.Sprintf("r%d", i), r, &leaves) {
			return false
		}
	}
	var terms []string
	seen := map[string]bool{}
	add := func(t string) {
		if t != "" && t != "true" && t != "false" && !seen[t] {
			seen[t] = true
			terms = append(terms, t)
		}
	}
	strLeaf := map[string]bool{}
	for _, l := range leaves {
		add(l.sc.T)
		add(l.sc.Nil)
		if l.sc.Sort == "Str" {
			strLeaf[l.sc.T] = true
		}
	}
	// quantified background facts that do not mention the inputs (balances are non-negative, ...) are dropped from the
	// model query; a quantified assumption about an input (a quantified precondition) means: no replay
	o2 := *o
	o2.PC = nil
	for _, p := range o.PC {
		if strings.Contains(p, "(forall ") || strings.Contains(p, "(exists ") {
			for _, l := range leaves[:nIn] {
				if strings.HasPrefix(l.sc.T, "|") && strings.Contains(p, l.sc.T) {
					return false
				}
			}
			continue
		}
		o2.PC = append(o2.PC, p)
	}
	o2.Vacuity = true // build with the quantifier-free part of the prelude: a model, not a refutation, is wanted
	q := V.buildQuery(&o2, nil, true, 0)
	// symbols the query does not mention are unconstrained: any value will do
	var asked []string
	defaults := map[string]string{}
	for _, t := range terms {
		if strings.HasPrefix(t, "|") && !strings.Contains(t, " ") && !strings.Contains(q, "(declare-const "+t+" ") && !strings.Contains(q, "(declare-fun "+t+" ") {
			defaults[t] = ""
			continue
		}
		asked = append(asked, t)
	}
	// strings are abstract in the model; whether one has to be a well-formed address or denomination is asked too, so
	// that the replay can use a real bech32 address / a valid denomination in its place
	strPreds := func(as []string) []string {
		out := as
		for _, t := range as {
			if !strings.HasPrefix(t, "(validAddr ") && !strings.HasPrefix(t, "(validDenom ") && strLeaf[t] {
				out = append(out, "(validAddr "+t+")", "(validDenom "+t+")")
			}
		}
		return out
	}
	vals, ok := modelValues(q, strPreds(asked), dir)
	if !ok {
		return false
	}
	// second query: the elements of the input slices, now that their lengths are known
	{
		var elemLeaves []leafRef
		for _, p := range ri.Params {
			if !sliceElems(p, vals, &elemLeaves) {
				return false
			}
		}
		if len(elemLeaves) > 0 {
			asked2 := append([]string{}, asked...)
			seen2 := map[string]bool{}
			for _, t := range asked2 {
				seen2[t] = true
			}
			for _, l := range elemLeaves {
				for _, t := range []string{l.sc.T, l.sc.Nil} {
					if t == "" || t == "true" || t == "false" || seen2[t] {
						continue
					}
					seen2[t] = true
					// the array symbol inside (select arr i) must be declared in the query
					if m := symRe.FindString(t); m != "" && !strings.Contains(q, "(declare-const "+m+" ") && !strings.Contains(q, "(declare-fun "+m+" ") {
						defaults[t] = ""
						leaves = append(leaves, l)
						continue
					}
					asked2 = append(asked2, t)
				}
			}
			for _, l := range elemLeaves {
				if l.sc.Sort == "Str" {
					strLeaf[l.sc.T] = true
				}
			}
			vals2, ok := modelValues(q, strPreds(asked2), dir)
			if !ok {
				return false
			}
			vals = vals2
			leaves = append(leaves, elemLeaves...)
		}
	}
	for _, l := range leaves {
		for _, t := range []string{l.sc.T, l.sc.Nil} {
			if _, isDef := defaults[t]; isDef {
				switch l.sc.Sort {
				case "Bool":
					vals[t] = "false"
				case "Str":
					vals[t] = "Str!unconstrained"
				case "Addr":
					vals[t] = "Addr!unconstrained"
				default:
					vals[t] = "0"
				}
				if t == l.sc.Nil {
					vals[t] = "false"
				}
			}
		}
	}
	vals["true"], vals["false"] = "true", "false"
	_ = nIn
	// the test
	fn := ri.Fn
	V.replayPkg = fn.Pkg.Pkg.Path()
	V.replayImports = map[string]string{}
	imports := map[string]bool{"fmt": true, "testing": true, "math/big": true}
	strs := map[string]string{}
	var args []string
	recvCall := ""
	sig := fn.Signature
	for i, p := range fn.Params {
		lit, ok := V.goLiteral(p.Type(), fmt.Sprintf("p%d", i), ri.Params[i], vals, strs, imports)
		if !ok {
			return false
		}
		if i == 0 && sig.Recv() != nil {
			recvCall = "(" + lit + ")." + fn.Name()
			continue
		}
		args = append(args, lit)
	}
	if recvCall == "" {
		recvCall = fn.Name()
	}
	var body strings.Builder
	nres := sig.Results().Len()
	var lhs []string
	for i := 0; i < nres; i++ {
		lhs = append(lhs, fmt.Sprintf("r%d", i))
	}
	if nres > 0 {
		fmt.Fprintf(&body, "\t%s := %s(%s)\n", strings.Join(lhs, ", "), recvCall, strings.Join(args, ", "))
	} else {
		fmt.Fprintf(&body, "\t%s(%s)\n", recvCall, strings.Join(args, ", "))
	}
	// expected (model-predicted) outputs, in a canonical text form
	var expect []string
	for i := 0; i < nres; i++ {
		rt := sig.Results().At(i).Type()
		rv := ri.Results[i]
		switch {
		case namedOf(rt) == tyInt, namedOf(rt) == tyDec:
			sc, ok := rv.(Sc)
			if !ok {
				return false
			}
			x, ok := smtInt(vals[sc.T])
			if !ok {
				return false
			}
			if namedOf(rt) == tyInt {
				fmt.Fprintf(&body, "\tfmt.Printf(\"REPLAY-OUT r%d=%%s\\n\", r%d.String())\n", i, i)
			} else {
				fmt.Fprintf(&body, "\tfmt.Printf(\"REPLAY-OUT r%d=%%s\\n\", r%d.BigInt().String())\n", i, i)
			}
			expect = append(expect, fmt.Sprintf("r%d=%s", i, x))
		case isErrorType(rt):
			er, ok := rv.(Er)
			if !ok {
				return false
			}
			nv := vals[er.Nil]
			if er.Nil == "true" || er.Nil == "false" {
				nv = er.Nil
			}
			fmt.Fprintf(&body, "\tfmt.Printf(\"REPLAY-OUT r%d=%%v\\n\", r%d == nil)\n", i, i)
			expect = append(expect, fmt.Sprintf("r%d=%s", i, nv))
		default:
			b, isB := rt.Underlying().(*types.Basic)
			sc, ok := rv.(Sc)
			if !isB || !ok {
				return false
			}
			x := vals[sc.T]
			if sc.T == "true" || sc.T == "false" {
				x = sc.T
			}
			if b.Info()&types.IsInteger != 0 {
				if x, ok = smtInt(x); !ok {
					return false
				}
			} else if b.Info()&types.IsBoolean == 0 {
				return false
			}
			fmt.Fprintf(&body, "\tfmt.Printf(\"REPLAY-OUT r%d=%%v\\n\", r%d)\n", i, i)
			expect = append(expect, fmt.Sprintf("r%d=%s", i, x))
		}
	}
	var src strings.Builder
	fmt.Fprintf(&src, "package %s\n\n// Generated by govc: counterexample of obligation %s\n// clause: %s\nimport (\n", fn.Pkg.Pkg.Name(), o.Name, strings.ReplaceAll(o.Clause, "\n", " "))
	var imps []string
	for k := range imports {
		imps = append(imps, k)
	}
	sort.Strings(imps)
	for _, k := range imps {
		if k == "\x00addr" {
			fmt.Fprintf(&src, "\treplaysdk %q\n", "github.com/cosmos/cosmos-sdk/types")
			continue
		}
		fmt.Fprintf(&src, "\t%q\n", k)
	}
	var aliased []string
	for k := range V.replayImports {
		aliased = append(aliased, k)
	}
	sort.Strings(aliased)
	for _, k := range aliased {
		fmt.Fprintf(&src, "\t%s %q\n", V.replayImports[k], k)
	}
	src.WriteString(")\n\n")
	src.WriteString("func replayInt(s string) math.Int { b, _ := new(big.Int).SetString(s, 10); return math.NewIntFromBigInt(b) }\n")
	src.WriteString("func replayDec(s string) math.LegacyDec { b, _ := new(big.Int).SetString(s, 10); return math.LegacyNewDecFromBigIntWithPrec(b, 18) }\n")
	if imports["\x00addr"] {
		src.WriteString("func replayAddr(k int) string { b := make([]byte, 20); b[0], b[19] = byte(k+1), 0x5a; return replaysdk.AccAddress(b).String() }\n")
	}
	if imports["time"] {
		src.WriteString("func replayTime(s string) time.Time { b, _ := new(big.Int).SetString(s, 10); return time.Unix(0, b.Int64()).UTC() }\n")
	}
	if !imports["cosmossdk.io/math"] {
		return false // keeps the helper declarations valid; every function replayed so far handles Int or Dec values
	}
	fmt.Fprintf(&src, "\nfunc TestZZGovcReplay(t *testing.T) {\n%s\t_ = big.NewInt\n}\n", body.String())
	testFile := filepath.Join(dir, "replay_test.go")
	os.WriteFile(testFile, []byte(src.String()), 0o644)
	pkgDir := strings.TrimPrefix(fn.Pkg.Pkg.Path(), "github.com/tendermint/fundraising/")
	repl := map[string]string{filepath.Join(V.repo, pkgDir, "zz_govc_replay_test.go"): testFile}
	for k, v := range V.overlayFiles {
		// keep a copy of the mutated source next to the replay so that it can be re-run later
		cp := filepath.Join(dir, "overlay_"+filepath.Base(k))
		if b, err := os.ReadFile(v); err == nil {
			os.WriteFile(cp, b, 0o644)
			repl[k] = cp
		}
	}
	ov, _ := json.Marshal(map[string]interface{}{"Replace": repl})
	ovf := filepath.Join(dir, "overlay.json")
	os.WriteFile(ovf, ov, 0o644)
	cmdline := fmt.Sprintf("cd %s && GOFLAGS=-mod=mod GOPROXY=off GOSUMDB=off GOTOOLCHAIN=local go test -overlay %s -vet=off -count=1 -timeout 60s -run TestZZGovcReplay -v ./%s", V.repo, ovf, pkgDir)
	cmd := exec.Command("go", "test", "-overlay", ovf, "-vet=off", "-count=1", "-timeout", "60s", "-run", "TestZZGovcReplay", "-v", "./"+pkgDir)
	cmd.Dir = V.repo
	cmd.Env = append(os.Environ(), "GOFLAGS=-mod=mod", "GOPROXY=off", "GOSUMDB=off", "GOTOOLCHAIN=local")
	outB, _ := cmd.CombinedOutput()
	var got []string
	for _, ln := range strings.Split(string(outB), "\n") {
		if i := strings.Index(ln, "REPLAY-OUT "); i >= 0 {
			got = append(got, strings.TrimSpace(ln[i+len("REPLAY-OUT "):]))
		}
	}
	confirmed := len(got) == len(expect) && len(got) > 0
	for i := range got {
		if i >= len(expect) || got[i] != expect[i] {
			confirmed = false
		}
	}
	var rep strings.Builder
	fmt.Fprintf(&rep, "obligation: %s\nclause: %s\ninputs (model): see replay_test.go\npredicted outputs: %v\nreal outputs: %v\nconfirmed on the real code: %v\nre-run: %s\n", o.Name, o.Clause, expect, got, confirmed, cmdline)
	if !confirmed {
		tail := string(outB)
		if len(tail) > 1500 {
			tail = tail[len(tail)-1500:]
		}
		rep.WriteString("test output (tail):\n" + tail + "\n")
	}
	os.WriteFile(filepath.Join(dir, "replay.txt"), []byte(rep.String()), 0o644)
	return confirmed
}
