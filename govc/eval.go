package main

// Evaluation of contract expressions (Go expression syntax) to symbolic values / SMT formulas.

import (
	"fmt"
	"go/ast"
	"go/constant"
	"go/printer"
	"go/token"
	"go/types"
	"os"
	"strconv"
	"strings"

	"golang.org/x/tools/go/ssa"
)

type evalCtx struct {
	loopHeader *ssa.BasicBlock
	assuming   bool
	pre, post  bool
	results    []Val
	// call-site evaluation of a callee contract
	callee *ssa.Function
	args   map[string]Val
	old    *State
	extra  map[string]Val
}

type Ev struct {
	x        *X
	now      *State
	cur      *State
	old      *State
	scope    []map[string]Val
	pkg      *types.Package
	ctx      evalCtx
	fn       *ssa.Function
	depth    int
	sumDepth int
	where    string
}

func (x *X) newEv(s *State, ctx evalCtx) *Ev {
	ev := &Ev{x: x, cur: s, now: s, old: x.entry, ctx: ctx, fn: x.fn}
	if ctx.old != nil {
		ev.old = ctx.old
	}
	if ctx.callee != nil {
		ev.fn = ctx.callee
	}
	if ev.fn.Pkg != nil {
		ev.pkg = ev.fn.Pkg.Pkg
	} else if ev.fn.Parent() != nil && ev.fn.Parent().Pkg != nil {
		ev.pkg = ev.fn.Parent().Pkg.Pkg
	}
	base := map[string]Val{}
	for k, v := range ctx.extra {
		base[k] = v
	}
	ev.scope = []map[string]Val{base}
	return ev
}

func (x *X) evalClause(s *State, c *Clause, ctx evalCtx) string {
	ev := x.newEv(s, ctx)
	ev.where = fmt.Sprintf("%s:%d", filepathBase(c.File), c.Line)
	defer func() {
		if r := recover(); r != nil {
			if _, isU := r.(unsupported); !isU {
				// a value shape the evaluator does not expect: say which clause asked for it
				panic(unsupported{fmt.Sprintf("contract clause %s (%s): %v", ev.where, c.Name, r)})
			}
			panic(r)
		}
	}()
	v := ev.eval(c.Expr)
	sc, ok := v.(Sc)
	if !ok || sc.Sort != "Bool" {
		x.fail("%s:%d: clause is not a formula: %s", c.File, c.Line, c.Text)
	}
	if !ctx.assuming {
		x.lastGroup = c.Group
	}
	return sc.T
}

func (x *X) evalVal(s *State, c *Clause, ctx evalCtx) Val {
	ev := x.newEv(s, ctx)
	v := ev.eval(c.Expr)
	if mv, ok := v.(MapV); ok { // snapshot the content of a Go map
		m, ok := s.maps[mv.ID]
		if !ok {
			x.fail("%s:%d: let of a map that does not exist in this state (id %d)", c.File, c.Line, mv.ID)
		}
		return MapSnap{m}
	}
	return ev.x.flat(s, v)
}

// MapSnap is an immutable snapshot of a Go map (entry-let values).
type MapSnap struct{ M MapS }

// GRec is a record of a ghost store map: the value plus its presence flag.
type GRec struct {
	Present string
	V       Val
}

func (ev *Ev) errf(format string, a ...interface{}) {
	if os.Getenv("GOVC_DEBUG") == "2" {
		panic(fmt.Sprintf(format, a...))
	}
	ev.x.fail("contract of %s (%s): %s", ev.x.key, ev.where, fmt.Sprintf(format, a...))
}

func filepathBase(p string) string {
	if i := strings.LastIndex(p, "/"); i >= 0 {
		return p[i+1:]
	}
	return p
}

func (ev *Ev) lookupScope(name string) (Val, bool) {
	for i := len(ev.scope) - 1; i >= 0; i-- {
		if v, ok := ev.scope[i][name]; ok {
			return v, true
		}
	}
	return nil, false
}

func boolV(t string) Val { return Sc{T: t, Sort: "Bool"} }
func intV(t string) Val  { return Sc{T: t, Sort: "Int"} }

func (ev *Ev) state() *State { return ev.cur }

func (ev *Ev) ident(name string) Val {
	if v, ok := ev.lookupScope(name); ok {
		if c, isCell := v.(CellRef); isCell {
			return ev.deref(c.P)
		}
		return v
	}
	x := ev.x
	switch name {
	case "true", "false":
		return boolV(name)
	case "nil":
		return Opq{"nil"}
	case "S":
		return intV("S")
	}
	if v, ok := ev.now.lets[name]; ok {
		return v
	}
	// results
	if ev.ctx.results != nil {
		if v, ok := ev.resultByName(name); ok {
			return v
		}
	}
	// call-site arguments / own parameters
	if ev.ctx.args != nil {
		if v, ok := ev.ctx.args[name]; ok {
			return v
		}
	} else {
		// source variable at a loop head takes precedence over the parameter of the same name
		if ev.ctx.loopHeader != nil {
			if v, ok := x.sourceVar(ev.now, name, ev.ctx.loopHeader); ok {
				return v
			}
		}
		if v, ok := x.params[name]; ok {
			return v
		}
		if strings.HasSuffix(name, "0") {
			if v, ok := x.params[strings.TrimSuffix(name, "0")]; ok {
				return v
			}
		}
	}
	if name == "idx" && ev.ctx.loopHeader != nil {
		return x.loopIndex(ev.now, ev.ctx.loopHeader)
	}
	if strings.HasPrefix(name, "idx") && ev.ctx.loopHeader != nil {
		// idxK: iteration count of the enclosing loop with ordinal K
		if k, err := strconv.Atoi(name[3:]); err == nil {
			for h, o := range x.loopOrd {
				if o == k && h.Dominates(ev.ctx.loopHeader) {
					return x.loopIndex(ev.now, h)
				}
			}
		}
	}
	// ghost variables
	if v, ok := ev.cur.ghost[name]; ok {
		return v
	}
	// package-level constants of the function's package
	if ev.pkg != nil {
		if obj := ev.pkg.Scope().Lookup(name); obj != nil {
			if c, ok := obj.(*types.Const); ok {
				return ev.constant(c)
			}
		}
		if tp := x.V.typesPkg(); tp != nil && tp != ev.pkg {
			if obj := tp.Scope().Lookup(name); obj != nil {
				if c, ok := obj.(*types.Const); ok {
					return ev.constant(c)
				}
			}
		}
	}
	if v, ok := specConstants[name]; ok {
		return v
	}
	ev.errf("unknown identifier %q", name)
	return nil
}

var specConstants = map[string]Val{
	"KindFixed": Sc{T: "1", Sort: "Int"}, "KindBatch": Sc{T: "2", Sort: "Int"},
	"ErrNotFound": Sc{T: "ERR_NOTFOUND", Sort: "Int"}, "emptyStr": Sc{T: "emptyStr", Sort: "Str"},
	"TIME_ZERO": Sc{T: "TIME_ZERO", Sort: "Int"}, "DAY": Sc{T: "86400000000000", Sort: "Int"},
}

func (ev *Ev) constant(c *types.Const) Val {
	switch c.Val().Kind() {
	case constant.Int:
		s := c.Val().ExactString()
		if strings.HasPrefix(s, "-") {
			return intV("(- " + s[1:] + ")")
		}
		return intV(s)
	case constant.Bool:
		return boolV(c.Val().String())
	case constant.String:
		return Sc{T: ev.x.V.strLit(constant.StringVal(c.Val())), Sort: "Str"}
	}
	ev.errf("constant %s of unsupported kind", c.Name())
	return nil
}

func (ev *Ev) resultByName(name string) (Val, bool) {
	res := ev.ctx.results
	sig := ev.fn.Signature.Results()
	if name == "result" && len(res) >= 1 {
		return res[0], true
	}
	if strings.HasPrefix(name, "result") {
		if k, err := strconv.Atoi(strings.TrimPrefix(name, "result")); err == nil && k < len(res) {
			return res[k], true
		}
	}
	for i := 0; i < sig.Len(); i++ {
		if sig.At(i).Name() == name && i < len(res) {
			return res[i], true
		}
	}
	if name == "err" && sig.Len() > 0 && isErrorType(sig.At(sig.Len()-1).Type()) {
		return res[sig.Len()-1], true
	}
	return nil, false
}

// sourceVar resolves a source-level variable name at loop header h of the function under verification.
func (x *X) sourceVar(s *State, name string, h *ssa.BasicBlock) (Val, bool) {
	fr := s.frames[0]
	for _, in := range h.Instrs {
		if p, ok := in.(*ssa.Phi); ok && p.Comment == name {
			if v, ok := fr.env[p]; ok {
				return v, true
			}
		}
	}
	// enclosing loop headers
	for b := h.Idom(); b != nil; b = b.Idom() {
		if isLoopHeader(b) {
			for _, in := range b.Instrs {
				if p, ok := in.(*ssa.Phi); ok && p.Comment == name {
					if v, ok := fr.env[p]; ok {
						return v, true
					}
				}
			}
		}
	}
	// address-taken locals
	for _, b := range x.fn.Blocks {
		for _, in := range b.Instrs {
			if a, ok := in.(*ssa.Alloc); ok && a.Comment == name && (b == h || b.Dominates(h)) {
				if p, ok := fr.env[a].(Ptr); ok {
					return pathGet(s.objs[p.Obj], p.Path), true
				}
			}
		}
	}
	// DebugRef (anywhere in the function) to a value whose definition dominates the header: a variable that is not
	// loop carried has one reaching definition there; take the latest definition in dominance order. Constant
	// initialisers (x := T{} is recorded as nil before the composite literal is built) are used only as a fallback.
	var best ssa.Value
	var bestBlock *ssa.BasicBlock
	bestIdx := -1
	var constBest ssa.Value
	defBlock := func(v ssa.Value) (*ssa.BasicBlock, int) {
		in, ok := v.(ssa.Instruction)
		if !ok {
			return nil, -1
		}
		return in.Block(), instrIndex(in)
	}
	for _, b := range x.fn.Blocks {
		for _, in := range b.Instrs {
			d, ok := in.(*ssa.DebugRef)
			if !ok || d.IsAddr {
				continue
			}
			id, ok := d.Expr.(*ast.Ident)
			if !ok || id.Name != name {
				continue
			}
			if _, isC := d.X.(*ssa.Const); isC {
				if b.Dominates(h) && b != h {
					constBest = d.X
				}
				continue
			}
			if _, has := fr.env[d.X]; !has {
				continue
			}
			db, di := defBlock(d.X)
			if db == nil {
				// parameter or free variable
				if best == nil {
					best, bestBlock, bestIdx = d.X, x.fn.Blocks[0], -1
				}
				continue
			}
			if !db.Dominates(h) || db == h {
				continue
			}
			if best == nil || bestBlock.Dominates(db) && (bestBlock != db || di > bestIdx) {
				best, bestBlock, bestIdx = d.X, db, di
			}
		}
	}
	if best == nil && constBest != nil {
		best, bestBlock = constBest, x.fn.Blocks[0]
	}
	if best == nil && os.Getenv("GOVC_DEBUG") != "" {
		fmt.Fprintf(os.Stderr, "sourceVar %s at b%d: no candidate; env size %d\n", name, h.Index, len(fr.env))
		for _, b := range x.fn.Blocks {
			for _, in := range b.Instrs {
				if d, ok := in.(*ssa.DebugRef); ok {
					if id, ok := d.Expr.(*ast.Ident); ok && id.Name == name {
						_, has := fr.env[d.X]
						fmt.Fprintf(os.Stderr, "   debugref in b%d dominates=%v isaddr=%v has=%v x=%s\n", b.Index, b.Dominates(h), d.IsAddr, has, d.X)
					}
				}
			}
		}
	}
	if best != nil && os.Getenv("GOVC_DEBUG") != "" {
		fmt.Fprintf(os.Stderr, "sourceVar %s at b%d -> %s (%T) in b%d = %#v\n", name, h.Index, best, best, bestBlock.Index, fr.env[best])
	}
	if best != nil {
		if c, ok := best.(*ssa.Const); ok {
			return x.constVal(s, c), true
		}
		return fr.env[best], true
	}
	return nil, false
}

// rangeIter: the iterator state of the map-range loop whose header the clause under evaluation belongs to.
func (ev *Ev) rangeIter() *IterState {
	h := ev.ctx.loopHeader
	if h == nil {
		ev.errf("rangeKey/rangePos/visited outside a map-range loop invariant")
	}
	for _, in := range h.Instrs {
		if n, ok := in.(*ssa.Next); ok {
			if r, ok := n.Iter.(*ssa.Range); ok {
				if it := ev.now.iters[r]; it != nil {
					return it
				}
			}
		}
	}
	ev.errf("the loop is not a map range")
	return nil
}

// loopIndex is the number of completed iterations at loop header h.
func (x *X) loopIndex(s *State, h *ssa.BasicBlock) Val {
	fr := s.frames[0]
	for _, in := range h.Instrs {
		if p, ok := in.(*ssa.Phi); ok && p.Comment == "rangeindex" {
			return intV(sApp("+", tm(fr.env[p]), "1"))
		}
		if n, ok := in.(*ssa.Next); ok {
			if r, ok := n.Iter.(*ssa.Range); ok {
				return intV(s.iters[r].Idx)
			}
		}
	}
	// a counting loop written by hand (for i := 0; ...; i++): the one integer phi of the header that starts at 0 and is
	// advanced by exactly one on every back edge counts the completed iterations just as the hidden range index does, so
	// an invariant written for `for i, v := range xs` survives the rewrite into an index loop
	var counter *ssa.Phi
	for _, in := range h.Instrs {
		p, ok := in.(*ssa.Phi)
		if !ok {
			continue
		}
		if b, isB := p.Type().Underlying().(*types.Basic); !isB || b.Info()&types.IsInteger == 0 {
			continue
		}
		zero, step, other := 0, 0, 0
		for _, e := range p.Edges {
			if c, isC := e.(*ssa.Const); isC && c.Value != nil && c.Int64() == 0 {
				zero++
				continue
			}
			if bo, isBO := e.(*ssa.BinOp); isBO && bo.Op == token.ADD && bo.X == ssa.Value(p) {
				if c, isC := bo.Y.(*ssa.Const); isC && c.Value != nil && c.Int64() == 1 {
					step++
					continue
				}
			}
			other++
		}
		if zero == 1 && step >= 1 && other == 0 {
			if counter != nil {
				x.fail("idx used in a loop with two counters")
			}
			counter = p
		}
	}
	if counter != nil {
		return intV(tm(fr.env[counter]))
	}
	x.fail("idx used in a loop that is neither a slice range, a map range nor a loop with one counter from 0 in steps of 1")
	return nil
}

func (ev *Ev) withScope(m map[string]Val, f func() Val) Val {
	ev.scope = append(ev.scope, m)
	defer func() { ev.scope = ev.scope[:len(ev.scope)-1] }()
	return f()
}

func (ev *Ev) sortOfName(n string) string {
	switch n {
	case "int", "Int", "uint64", "int64", "uint32", "Time", "Dec":
		return "Int"
	case "string", "Str":
		return "Str"
	case "Addr":
		return "Addr"
	case "bool", "Bool":
		return "Bool"
	}
	ev.errf("unknown sort %q", n)
	return ""
}

func (ev *Ev) eval(e ast.Expr) Val {
	switch n := e.(type) {
	case *ast.ParenExpr:
		return ev.eval(n.X)
	case *ast.Ident:
		return ev.ident(n.Name)
	case *ast.BasicLit:
		switch n.Kind {
		case token.INT:
			return intV(n.Value)
		case token.STRING:
			str, _ := strconv.Unquote(n.Value)
			return Sc{T: ev.x.V.strLit(str), Sort: "Str"}
		case token.FLOAT:
			// decimal literal = raw 18-decimal integer
			return intV(decLit(n.Value))
		}
	case *ast.UnaryExpr:
		v := ev.eval(n.X)
		switch n.Op {
		case token.NOT:
			return boolV(sNot(tm(v)))
		case token.SUB:
			return intV("(- " + tm(v) + ")")
		}
	case *ast.BinaryExpr:
		return ev.binary(n)
	case *ast.SelectorExpr:
		return ev.selector(n)
	case *ast.IndexExpr:
		return ev.index(ev.eval(n.X), ev.eval(n.Index))
	case *ast.CallExpr:
		return ev.call(n)
	case *ast.StarExpr:
		return ev.deref(ev.eval(n.X))
	}
	ev.errf("unsupported expression %T", e)
	return nil
}

func decLit(s string) string {
	parts := strings.SplitN(s, ".", 2)
	frac := ""
	if len(parts) == 2 {
		frac = parts[1]
	}
	for len(frac) < 18 {
		frac += "0"
	}
	r := strings.TrimLeft(parts[0]+frac[:18], "0")
	if r == "" {
		r = "0"
	}
	return r
}

func (ev *Ev) deref(v Val) Val {
	switch p := v.(type) {
	case Ptr:
		if p.Obj == 0 {
			ev.errf("dereference of nil pointer in contract")
		}
		o, ok := ev.cur.objs[p.Obj]
		if !ok && ev.now != nil {
			o, ok = ev.now.objs[p.Obj] // object allocated after the old state was taken (e.g. a result mentioned inside old())
		}
		if !ok {
			ev.errf("object %d does not exist in this state", p.Obj)
		}
		return pathGet(o, p.Path)
	case PCell:
		return pathGet(selV(ev.cur.maps[p.ID].Val, p.Key), p.Path)
	case PElem:
		return pathGet(selV(ev.x.flat(ev.cur, ev.cur.arrs[p.ID]), p.Idx), p.Path)
	case Iface:
		if pp, ok := p.V.(Ptr); ok {
			if pp.Obj == 0 && p.Kind != "" {
				// a nil AuctionI (error paths): its fields are arbitrary values, so that "err == nil ==> result.F ..." can be written
				if ev.x.junkAuction == nil {
					rec := ev.x.auctionRecord(ev.cur, "nil.auction", idWrap)
					flatRec := St{map[string]Val{}}
					for k, f := range rec.F {
						flatRec.F[k] = f
					}
					ev.x.junkAuction = flatRec
				}
				return ev.x.junkAuction
			}
			return ev.deref(pp)
		}
		return p.V
	}
	return v
}

func (ev *Ev) selector(n *ast.SelectorExpr) Val {
	// package-qualified constant
	if id, ok := n.X.(*ast.Ident); ok && ev.pkg != nil {
		if _, bound := ev.lookupScope(id.Name); !bound {
			for _, imp := range ev.pkg.Imports() {
				if imp.Name() == id.Name {
					if c, ok := imp.Scope().Lookup(n.Sel.Name).(*types.Const); ok {
						return ev.constant(c)
					}
				}
			}
		}
	}
	base := ev.eval(n.X)
	return ev.field(base, n.Sel.Name)
}

func (ev *Ev) field(base Val, f string) Val {
	switch b := base.(type) {
	case GRec:
		if f == "present" {
			return boolV(b.Present)
		}
		return ev.field(b.V, f)
	case Iface:
		if (f == "kind" || f == "Kind") && b.Kind != "" {
			return intV(b.Kind)
		}
		if f == "isnil" {
			return boolV(ev.x.ifaceNil(b))
		}
		return ev.field(ev.deref(b), f)
	case Ptr, PCell, PElem:
		return ev.field(ev.deref(b), f)
	case St:
		if v, ok := b.F[f]; ok {
			return v
		}
		// promoted field through an embedded struct or pointer
		for _, k := range sortedKeys(b.F) {
			switch in := b.F[k].(type) {
			case St:
				if v, ok := in.F[f]; ok {
					return v
				}
			case Ptr:
				if in.Obj != 0 {
					ov, has := ev.cur.objs[in.Obj]
					if !has && ev.now != nil {
						ov = ev.now.objs[in.Obj]
					}
					if st, ok := ov.(St); ok {
						if v, ok := pathGet(st, in.Path).(St).F[f]; ok {
							return v
						}
					}
				}
			}
		}
		ev.errf("no field %s in struct with fields %v", f, sortedKeys(b.F))
	case Er:
		switch f {
		case "isnil":
			return boolV(b.Nil)
		case "kind":
			return intV(b.Kind)
		}
	case Sl:
		if f == "len" {
			return intV(b.Len)
		}
	case Sc:
		if f == "isnil" {
			if b.Nil == "" {
				return boolV("false")
			}
			return boolV(b.Nil)
		}
	}
	ev.errf("selector .%s on %T", f, base)
	return nil
}

func (ev *Ev) index(base, idx Val) Val {
	x := ev.x
	switch b := base.(type) {
	case Sl:
		st := ev.cur
		if b.ID != 0 {
			if _, has := st.arrs[b.ID]; !has && ev.now != nil {
				st = ev.now // a slice made after the old state was taken (a local mentioned inside old())
			}
		}
		return selV(x.flat(st, x.slElem(st, b)), tm(idx))
	case MapV:
		if b.ID == 0 {
			ev.errf("index into nil map")
		}
		return selV(ev.cur.maps[b.ID].Val, tm(idx))
	case MapSnap:
		return selV(b.M.Val, tm(idx))
	case *GMap:
		return b.index(ev, tm(idx))
	case GPartial:
		return b.index(ev, tm(idx))
	case Sc:
		if strings.HasPrefix(b.Sort, "(Array ") {
			return Sc{T: sSel(b.T, tm(idx)), Sort: elemSort(b.Sort)}
		}
	case Ptr, PCell, PElem:
		return ev.index(ev.deref(b), idx)
	case St:
		// array value with constant index
		if v, ok := b.F[tm(idx)]; ok {
			return v
		}
	}
	ev.errf("index on %T", base)
	return nil
}

func (ev *Ev) binary(n *ast.BinaryExpr) Val {
	switch n.Op {
	case token.LAND:
		l := tm(ev.eval(n.X))
		if l == "false" {
			return boolV("false")
		}
		return boolV(sAnd(l, tm(ev.eval(n.Y))))
	case token.LOR:
		l := tm(ev.eval(n.X))
		if l == "true" {
			return boolV("true")
		}
		return boolV(sOr(l, tm(ev.eval(n.Y))))
	}
	l, r := ev.eval(n.X), ev.eval(n.Y)
	if (l == nil || r == nil) && os.Getenv("GOVC_DEBUG") != "" {
		var buf strings.Builder
		printer.Fprint(&buf, token.NewFileSet(), n)
		fmt.Fprintf(os.Stderr, "nil operand in: %s   l=%#v r=%#v\n", buf.String(), l, r)
		if ie, ok := n.X.(*ast.IndexExpr); ok {
			fmt.Fprintf(os.Stderr, "   base=%#v\n", ev.eval(ie.X))
		}
	}
	switch n.Op {
	case token.EQL:
		return boolV(ev.equal(l, r))
	case token.NEQ:
		return boolV(sNot(ev.equal(l, r)))
	}
	a, b := ev.sc(l), ev.sc(r)
	switch n.Op {
	case token.ADD:
		return intV(sApp("+", a, b))
	case token.SUB:
		return intV(sApp("-", a, b))
	case token.MUL:
		return intV(sApp("*", a, b))
	case token.QUO:
		return intV(sApp("div", a, b))
	case token.REM:
		return intV(sApp("mod", a, b))
	case token.LSS:
		return boolV(sApp("<", a, b))
	case token.LEQ:
		return boolV(sApp("<=", a, b))
	case token.GTR:
		return boolV(sApp(">", a, b))
	case token.GEQ:
		return boolV(sApp(">=", a, b))
	}
	ev.errf("binary operator %s", n.Op)
	return nil
}

func (ev *Ev) equal(l, r Val) string {
	x := ev.x
	isNil := func(v Val) bool { o, ok := v.(Opq); return ok && o.Why == "nil" }
	if isNil(r) {
		l, r = r, l
	}
	if isNil(l) {
		switch b := r.(type) {
		case Er:
			return b.Nil
		case Ptr:
			if b.Obj == 0 {
				return "true"
			}
			return "false"
		case PCell:
			return "false"
		case Iface:
			return x.ifaceNil(b)
		case MapV:
			if b.ID == 0 {
				return "true"
			}
			return "false"
		case Opq:
			if b.Why == "nil" {
				return "true"
			}
			return x.opqNil(ev.cur, b)
		case Sc:
			if b.Sort == "Ref" {
				return sEq(b.T, "nilref")
			}
		}
		ev.errf("comparison of %T with nil", r)
	}
	if _, rIsRec := r.(GRec); rIsRec {
		if _, lIsRec := l.(GRec); !lIsRec {
			l, r = r, l
		}
	}
	switch a := l.(type) {
	case Sc:
		return sEq(a.T, ev.sc(r))
	case GRec:
		b, ok := r.(GRec)
		if !ok {
			if _, isSc := a.V.(Sc); isSc {
				return sEq(ev.sc(a), ev.sc(r))
			}
			if _, isSt := r.(St); isSt {
				return sAnd(a.Present, x.eqV(a.V, x.flat(ev.cur, r)))
			}
			ev.errf("comparison of a store record with %T", r)
		}
		return sAnd(sEq(a.Present, b.Present), sImp(a.Present, x.eqV(a.V, b.V)))
	case St, Sl, Er:
		return x.eqV(x.flat(ev.cur, l), x.flat(ev.cur, r))
	case Ptr, PCell, PElem:
		return ev.equal(ev.deref(l), ev.deref(r))
	case MapSnap:
		switch b := r.(type) {
		case MapSnap:
			return ev.mapEq(a.M, b.M)
		case MapV:
			return ev.mapEq(a.M, ev.cur.maps[b.ID])
		}
	case MapV:
		switch b := r.(type) {
		case MapSnap:
			return ev.mapEq(ev.cur.maps[a.ID], b.M)
		case MapV:
			return ev.mapEq(ev.cur.maps[a.ID], ev.cur.maps[b.ID])
		}
	case *GMap:
		if b, ok := r.(*GMap); ok {
			return a.equal(x, b)
		}
	}
	ev.errf("== on %T and %T", l, r)
	return ""
}

// mapEq: same domain and same values on the domain.
func (ev *Ev) mapEq(a, b MapS) string {
	k := ev.x.bound("k", a.KSort)
	inner := ev.x.eqV(selV(a.Val, k), selV(b.Val, k))
	return sAnd(sEq(a.Dom, b.Dom), fmt.Sprintf("(forall ((%s %s)) (=> (select %s %s) %s))", k, a.KSort, a.Dom, k, inner))
}

func (ev *Ev) call(n *ast.CallExpr) Val {
	x := ev.x
	fname := ""
	switch f := n.Fun.(type) {
	case *ast.Ident:
		fname = f.Name
	case *ast.SelectorExpr:
		// method-like pseudo calls: x.f(...) are not supported except package-qualified spec functions
		fname = f.Sel.Name
	default:
		ev.errf("call of %T", n.Fun)
	}
	arg := func(i int) Val { return ev.eval(n.Args[i]) }
	need := func(k int) {
		if len(n.Args) != k {
			ev.errf("%s expects %d arguments", fname, k)
		}
	}
	switch fname {
	case "old":
		need(1)
		if ev.old == nil {
			ev.errf("old() without an entry state")
		}
		saveCur, saveRes := ev.cur, ev.ctx.results
		ev.cur = ev.old
		// loop variables (idx, source variables) keep their current values inside old(); heap and ghost state are the old ones
		v := ev.eval(n.Args[0])
		switch v.(type) {
		case Ptr, PCell, PElem, Iface:
			// old(p) of a pointer / interface is the old content of the object, not the (unchanged) reference
			v = ev.x.flat(ev.cur, ev.derefAll(v))
		}
		ev.cur, ev.ctx.results = saveCur, saveRes
		return v
	case "imp":
		need(2)
		lhs := tm(arg(0))
		lhsFalse := lhs == "false" || ev.cur.knows(sNot(lhs))
		if !lhsFalse && strings.HasPrefix(lhs, "(and ") {
			for _, cj := range splitTop(lhs[5 : len(lhs)-1]) {
				if cj == "false" || ev.cur.knows(sNot(cj)) {
					lhsFalse = true
					break
				}
			}
		}
		if lhsFalse {
			return boolV("true") // short-circuit: the consequent may not even be well defined (nil result on this path)
		}
		return boolV(sImp(lhs, tm(arg(1))))
	case "iff":
		need(2)
		return boolV(sEq(tm(arg(0)), tm(arg(1))))
	case "ite":
		need(3)
		c := tm(arg(0))
		return iteV(c, x.flat(ev.cur, arg(1)), x.flat(ev.cur, arg(2)))
	case "forall", "exists":
		// forall(v, sort, body) or forall(v, sort, pattern, body)
		if len(n.Args) != 3 && len(n.Args) != 4 {
			ev.errf("%s(var, sort, [trigger,] body)", fname)
		}
		vn := n.Args[0].(*ast.Ident).Name
		so := ev.sortOfName(n.Args[1].(*ast.Ident).Name)
		bv := x.bound(vn, so)
		return ev.withScope(map[string]Val{vn: Sc{T: bv, Sort: so}}, func() Val {
			body := tm(ev.eval(n.Args[len(n.Args)-1]))
			pat := ""
			if len(n.Args) == 4 {
				pv := ev.eval(n.Args[2])
				var ls []leaf
				leaves(pv, "", &ls)
				if len(ls) > 0 {
					pat = ls[0].S.T
				}
			}
			if body == "true" && fname == "forall" {
				return boolV("true")
			}
			if pat != "" && strings.Contains(pat, bv) {
				return boolV(fmt.Sprintf("(%s ((%s %s)) (! %s :pattern (%s)))", fname, bv, so, body, pat))
			}
			return boolV(fmt.Sprintf("(%s ((%s %s)) %s)", fname, bv, so, body))
		})
	case "let":
		need(3)
		vn := n.Args[0].(*ast.Ident).Name
		v := arg(1)
		return ev.withScope(map[string]Val{vn: v}, func() Val { return ev.eval(n.Args[2]) })
	case "len":
		need(1)
		switch v := arg(0).(type) {
		case Sl:
			return intV(v.Len)
		case Ptr, PCell, PElem:
			if sl, ok := ev.deref(v).(Sl); ok {
				return intV(sl.Len)
			}
		}
		ev.errf("len of %T", arg(0))
	case "listeners":
		// the listener list behind a FundraisingHooks value whose dynamic type is types.MultiFundraisingHooks
		need(1)
		v := arg(0)
		if p, ok := v.(Ptr); ok {
			v = ev.deref(p)
		}
		if iv, ok := v.(Iface); ok && iv.Dyn != nil && strings.HasSuffix(iv.Dyn.String(), ".MultiFundraisingHooks") {
			if sl, isSl := iv.V.(Sl); isSl {
				return ev.x.flat(ev.cur, sl)
			}
		}
		if sc, ok := v.(Sc); ok && sc.Sort == "Ref" {
			// an unknown listener: nothing is known about a list behind it (uninterpreted)
			return Sl{0, sApp("reflistN", sc.T), Sc{T: sApp("reflist", sc.T), Sort: arrSort("Int", "Ref")}}
		}
		ev.errf("listeners of %T (not a MultiFundraisingHooks value)", v)
	case "has":
		need(2)
		k := tm(arg(1))
		switch m := arg(0).(type) {
		case MapV:
			if m.ID == 0 {
				return boolV("false")
			}
			return boolV(sSel(ev.cur.maps[m.ID].Dom, k))
		case MapSnap:
			return boolV(sSel(m.M.Dom, k))
		}
		ev.errf("has on %T", arg(0))
	case "dom":
		need(1)
		switch m := arg(0).(type) {
		case MapV:
			return Sc{T: ev.cur.maps[m.ID].Dom, Sort: arrSort(ev.cur.maps[m.ID].KSort, "Bool")}
		case MapSnap:
			return Sc{T: m.M.Dom, Sort: arrSort(m.M.KSort, "Bool")}
		}
	case "vals":
		// the value array of a Go map with scalar values (meaningful at the keys of dom(m))
		need(1)
		var mv Val
		switch m := arg(0).(type) {
		case MapV:
			mv = ev.cur.maps[m.ID].Val
		case MapSnap:
			mv = m.M.Val
		}
		if sc, ok := mv.(Sc); ok {
			return sc
		}
		ev.errf("vals of %T", arg(0))
	case "min":
		need(2)
		return intV(sApp("min2", tm(arg(0)), tm(arg(1))))
	case "max":
		need(2)
		return intV(sApp("max2", tm(arg(0)), tm(arg(1))))
	case "sum":
		// sum(j, lo, hi, body): Σ_{j=lo}^{hi-1} body
		need(4)
		return ev.sum(n)
	case "isnil":
		need(1)
		switch v := arg(0).(type) {
		case Sc:
			if v.Nil == "" {
				return boolV("false")
			}
			return boolV(v.Nil)
		}
	case "rangeKey", "rangePos", "visited":
		// map-range loops: rangeKey(j) is the j-th key of the (arbitrary, duplicate-free) enumeration, rangePos(k) the
		// position of key k in it, visited(k) says that k is a key of the map whose iteration has been completed
		need(1)
		it := ev.rangeIter()
		switch fname {
		case "rangeKey":
			return Sc{T: sSel(it.K, tm(arg(0))), Sort: it.KSort}
		case "rangePos":
			if it.Pos == "" {
				ev.errf("rangePos over an empty map literal")
			}
			return intV(sApp(it.Pos, tm(arg(0))))
		default:
			if it.Pos == "" {
				return boolV("false")
			}
			k := tm(arg(0))
			return boolV(sAnd(sSel(it.Dom, k), sApp("<", sApp(it.Pos, k), it.Idx)))
		}
	case "local":
		// local(name): the local variable of that name at this program point, even if a result carries the same name
		need(1)
		id, ok := n.Args[0].(*ast.Ident)
		if !ok || ev.ctx.loopHeader == nil {
			ev.errf("local(name) is available in exit clauses and loop invariants only")
		}
		v, ok := x.sourceVar(ev.now, id.Name, ev.ctx.loopHeader)
		if !ok {
			ev.errf("no local variable %q in scope", id.Name)
		}
		return v
	case "indexIn":
		// indexIn(list, Field, w): the least index at which list[k].Field == w, -1 if none (string fields)
		need(3)
		sl, ok := ev.derefAll(arg(0)).(Sl)
		if !ok {
			ev.errf("indexIn: first argument must be a slice")
		}
		fld, ok := n.Args[1].(*ast.Ident)
		if !ok {
			ev.errf("indexIn: second argument must be a field name")
		}
		el, ok := x.flat(ev.cur, x.slElem(ev.cur, sl)).(St)
		if !ok {
			ev.errf("indexIn: slice of %T", x.slElem(ev.cur, sl))
		}
		col, ok := el.F[fld.Name].(Sc)
		if !ok {
			ev.errf("indexIn: no string field %s", fld.Name)
		}
		return intV(sApp("idxOf", col.T, sl.Len, tm(arg(2))))
	case "sameExcept":
		// sameExcept(a, b, f1, f2, ...): all leaves equal except those under the named fields
		if len(n.Args) < 2 {
			ev.errf("sameExcept(a, b, fields...)")
		}
		var ex []string
		for _, a := range n.Args[2:] {
			ex = append(ex, exprString(a))
		}
		return boolV(ev.sameExcept(x.flat(ev.cur, ev.derefAll(arg(0))), x.flat(ev.cur, ev.derefAll(arg(1))), ex))
	}
	if lv, ok := ev.now.lets[fname]; ok {
		if o, isO := lv.(Opq); isO && strings.HasPrefix(o.Why, "fn:") {
			// a function symbol introduced by a schema (walkPos<k>: position of a key in the k-th walk's listing)
			var ts []string
			for i := range n.Args {
				ts = append(ts, tm(arg(i)))
			}
			return intV(sApp(strings.TrimPrefix(o.Why, "fn:"), ts...))
		}
	}
	if wv, ok := ev.lookupScope(fname); ok {
		if wf, isW := wv.(WalkFn); isW {
			need(1)
			return wf.F(tm(arg(0)))
		}
	}
	if m, ok := x.V.cs.Macros[fname]; ok {
		if len(n.Args) != len(m.Params) {
			ev.errf("spec %s expects %d arguments", fname, len(m.Params))
		}
		sc := map[string]Val{}
		for i, p := range m.Params {
			sc[p] = arg(i)
		}
		ev.depth++
		if ev.depth > 40 {
			ev.errf("spec macros nested too deeply (recursive?) at %s", fname)
		}
		defer func() { ev.depth-- }()
		// macros see only their parameters, ghost state and constants, not the caller's bound names
		saved := ev.scope
		ev.scope = []map[string]Val{sc}
		defer func() { ev.scope = saved }()
		return ev.eval(m.Body)
	}
	if pf, ok := preludeFuns[fname]; ok {
		if len(n.Args) != len(pf.Args) {
			ev.errf("%s expects %d arguments", fname, len(pf.Args))
		}
		var as []string
		for i := range n.Args {
			as = append(as, ev.sc(arg(i)))
		}
		return Sc{T: sApp(pf.SMT, as...), Sort: pf.Ret}
	}
	if g, ok := x.V.ghostFuncs[fname]; ok {
		var as []Val
		for i := range n.Args {
			as = append(as, arg(i))
		}
		return g(ev, as)
	}
	ev.errf("unknown function %q", fname)
	return nil
}

func exprString(e ast.Expr) string {
	switch n := e.(type) {
	case *ast.Ident:
		return n.Name
	case *ast.SelectorExpr:
		return exprString(n.X) + "." + n.Sel.Name
	}
	return "?"
}

// derefAll turns a pointer/interface to a (union) object into its flattened field structure, inlining
// embedded pointers so that two objects can be compared field by field.
func (ev *Ev) derefAll(v Val) Val {
	if iv, ok := v.(Iface); ok && iv.Kind != "" {
		// an AuctionI object compares like its union record: the dynamic kind is one of its leaves
		inner := ev.derefAll(iv.V)
		if st, ok := inner.(St); ok {
			r := St{map[string]Val{"Kind": Sc{T: iv.Kind, Sort: "Int"}}}
			for k, f := range st.F {
				r.F[k] = f
			}
			return r
		}
		return inner
	}
	v = ev.deref(v)
	if st, ok := v.(St); ok {
		r := St{map[string]Val{}}
		for k, f := range st.F {
			if p, isP := f.(Ptr); isP && p.Obj != 0 {
				r.F[k] = ev.derefAll(p)
			} else {
				r.F[k] = f
			}
		}
		return r
	}
	if g, ok := v.(GRec); ok {
		return g.V
	}
	return v
}

func (ev *Ev) sameExcept(a, b Val, except []string) string {
	var la, lb []leaf
	leaves(a, "", &la)
	leaves(b, "", &lb)
	// a store record keeps the BaseAuction fields under "Base", an object under "BaseAuction": compare by field name
	norm := func(p string) string {
		p = strings.Replace(p, ".BaseAuction.", ".", 1)
		p = strings.Replace(p, ".Base.", ".", 1)
		return p
	}
	for i := range la {
		la[i].Path = norm(la[i].Path)
	}
	mb := map[string]Sc{}
	for _, l := range lb {
		mb[norm(l.Path)] = l.S
	}
	var cs []string
	seen := 0
outer:
	for _, l := range la {
		for _, e := range except {
			if strings.HasPrefix(l.Path, "."+e+".") || l.Path == "."+e || strings.Contains(l.Path, "."+e+".") || strings.HasSuffix(l.Path, "."+e) {
				continue outer
			}
		}
		o, ok := mb[l.Path]
		if !ok {
			continue
		}
		seen++
		cs = append(cs, sEq(l.S.T, o.T))
	}
	if seen == 0 || seen < len(la)/2 {
		ev.errf("sameExcept compares only %d of %d leaves (shape mismatch?)", seen, len(la))
	}
	return sAnd(cs...)
}

// ---------------------------------------------------------------- recursive sums

// SumFn is a closed recursive function F(p0..pk, n) = Σ_{j=lo(p)}^{n-1} body(p, j). The body of a sum(...) term is made
// closed by turning its maximal sub-terms that do not mention the summation variable into parameters, so that sums
// over different states of the same arrays are applications of the same function to different arguments. The
// generator adds one-step unfoldings and the congruence / point-update facts (smt.go) at the applications that
// occur in a query.
type SumFn struct {
	Name   string
	PSorts []string
	Lo     string // over p0?..pk?
	Body   string // over p0?..pk? and sumvar
}

func (ev *Ev) sum(n *ast.CallExpr) Val {
	x := ev.x
	vn := n.Args[0].(*ast.Ident).Name
	lo := ev.sc(ev.eval(n.Args[1]))
	hi := ev.sc(ev.eval(n.Args[2]))
	ev.sumDepth++
	bv := fmt.Sprintf("sumvar%d", ev.sumDepth) // unique per nesting level; canonicalised to "sumvar" in the function body
	body := ev.withScope(map[string]Val{vn: Sc{T: bv, Sort: "Int"}}, func() Val { return ev.eval(n.Args[3]) })
	ev.sumDepth--
	bt := ev.sc(body)
	be, err := parseSx(bt)
	if err != nil {
		ev.errf("sum body: %v", err)
	}
	le, err := parseSx(lo)
	if err != nil {
		ev.errf("sum bound: %v", err)
	}
	var args []string
	idx := map[string]int{}
	cb := abstractParams(be, bv, &args, idx)
	cl := abstractParams(le, bv, &args, idx)
	var sorts []string
	for _, a := range args {
		ae, _ := parseSx(a)
		so, err := sortOfSx(ae, x.symSort)
		if err != nil {
			ev.errf("sum parameter %s: %v", a, err)
		}
		sorts = append(sorts, so)
	}
	cbs := replaceToken(cb.String(), bv, "sumvar")
	key := cbs + "|" + cl.String() + "|" + strings.Join(sorts, ",")
	sf, ok := x.sums[key]
	if !ok {
		sf = &SumFn{Lo: cl.String(), Body: cbs, PSorts: sorts}
		sf.Name = x.declFun("sum", append(append([]string{}, sorts...), "Int"), "Int")
		x.sums[key] = sf
	}
	return intV(sApp(sf.Name, append(append([]string{}, args...), hi)...))
}

// symSort: sort of a declared symbol, declared function (result sort) or bound variable.
func (x *X) symSort(name string) (string, bool) {
	if s, ok := x.sorts[name]; ok {
		return s, true
	}
	return "", false
}

func isBoundName(t string) bool {
	if strings.ContainsAny(t, "() |") {
		return false
	}
	i := strings.LastIndex(t, "_")
	if i <= 0 {
		return false
	}
	_, err := strconv.Atoi(t[i+1:])
	return err == nil
}

func isTokChar(c byte) bool {
	return c == '_' || c == '!' || c == '.' || c == '$' || (c >= '0' && c <= '9') || (c >= 'a' && c <= 'z') || (c >= 'A' && c <= 'Z')
}

func containsToken(s, tok string) bool {
	for i := 0; ; {
		j := strings.Index(s[i:], tok)
		if j < 0 {
			return false
		}
		p := i + j
		before := p == 0 || !isTokChar(s[p-1])
		after := p+len(tok) >= len(s) || !isTokChar(s[p+len(tok)])
		if before && after {
			return true
		}
		i = p + 1
	}
}

func replaceToken(s, tok, with string) string {
	var b strings.Builder
	for i := 0; i < len(s); {
		j := strings.Index(s[i:], tok)
		if j < 0 {
			b.WriteString(s[i:])
			break
		}
		p := i + j
		before := p == 0 || !isTokChar(s[p-1])
		after := p+len(tok) >= len(s) || !isTokChar(s[p+len(tok)])
		b.WriteString(s[i:p])
		if before && after {
			b.WriteString(with)
		} else {
			b.WriteString(tok)
		}
		i = p + len(tok)
	}
	return b.String()
}

// sc reads a value as a scalar term; a scalar store record (BidSeq, MatchedBidsLen) reads as 0 when absent.
func (ev *Ev) sc(v Val) string {
	if g, ok := v.(GRec); ok {
		if sc, isSc := g.V.(Sc); isSc {
			return sIte(g.Present, sc.T, "0")
		}
	}
	return tm(v)
}
