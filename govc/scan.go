package main

// Frame obligations decided by a scan of the SSA of the repository's own packages: statements of the form "no
// function outside F writes location L" or "no function calls method M", which are contracts (modifies clauses)
// over every function at once. A violated frame names the offending function and site.

import (
	"fmt"
	"go/constant"
	"go/token"
	"go/types"
	"os"
	"path/filepath"
	"sort"
	"strings"

	"golang.org/x/tools/go/packages"
	"golang.org/x/tools/go/ssa"
	"golang.org/x/tools/go/ssa/ssautil"
)

type scanCtx struct {
	sortVisit map[ssa.Value]bool
	V         *Verifier
	prog      *ssa.Program
	fns       []*ssa.Function // all functions of the repository's own (non-test) packages
	whole     bool
}

func scanOblig(prop, name string, ok bool, clause, detail string) *Oblig {
	o := &Oblig{Name: "scan#" + name, Fn: "scan", Kind: "scan", Labels: []string{prop}, Clause: clause, Detail: detail, Backend: "ssa-scan"}
	if ok {
		o.Status = "unsat"
	} else {
		o.Status = "sat"
	}
	return o
}

// loadWhole loads every non-test package of the repository (SSA is built for the repository's packages only).
func (V *Verifier) loadRepoSSA() (*scanCtx, error) {
	env := append(os.Environ(), "GOFLAGS=-mod=mod", "GOPROXY=off", "GOSUMDB=off", "GOTOOLCHAIN=local")
	cfg := &packages.Config{Mode: packages.LoadAllSyntax, Dir: V.repo, Env: env, BuildFlags: []string{"-tags=verif"}, Overlay: V.overlay}
	pkgs, err := packages.Load(cfg, "./...")
	if err != nil {
		return nil, err
	}
	var own []*packages.Package
	nerr := 0
	for _, p := range pkgs {
		if strings.HasPrefix(p.PkgPath, "github.com/tendermint/fundraising") {
			own = append(own, p)
			for _, e := range p.Errors {
				fmt.Fprintf(os.Stderr, "load error: %s: %v\n", p.PkgPath, e)
				nerr++
			}
		}
	}
	if nerr > 0 {
		return nil, fmt.Errorf("%d errors while loading the repository", nerr)
	}
	prog, spkgs := ssautil.Packages(own, ssa.InstantiateGenerics)
	for _, sp := range spkgs {
		if sp != nil {
			sp.Build()
		}
	}
	sc := &scanCtx{V: V, prog: prog, whole: true}
	for fn := range ssautil.AllFunctions(prog) {
		if pp := fnPkgPath(fn); strings.HasPrefix(pp, "github.com/tendermint/fundraising") && fn.Blocks != nil {
			sc.fns = append(sc.fns, fn)
		}
	}
	sort.Slice(sc.fns, func(i, j int) bool { return sc.fns[i].String() < sc.fns[j].String() })
	return sc, nil
}

// moduleScan uses the already loaded module packages (types, keeper, module).
func (V *Verifier) moduleScan() *scanCtx {
	sc := &scanCtx{V: V, prog: V.prog}
	for fn := range ssautil.AllFunctions(V.prog) {
		pp := fnPkgPath(fn)
		if strings.HasPrefix(pp, "github.com/tendermint/fundraising/x/fundraising") && fn.Blocks != nil {
			sc.fns = append(sc.fns, fn)
		}
	}
	sort.Slice(sc.fns, func(i, j int) bool { return sc.fns[i].String() < sc.fns[j].String() })
	return sc
}

func (sc *scanCtx) file(fn *ssa.Function) string {
	return sc.prog.Fset.Position(fn.Pos()).Filename
}

func (sc *scanCtx) production(fn *ssa.Function) bool {
	f := sc.file(fn)
	if f == "" {
		for p := fn.Parent(); p != nil && f == ""; p = p.Parent() {
			f = sc.file(p)
		}
	}
	if strings.HasSuffix(f, "_test.go") || strings.Contains(f, "/testutil/") {
		return false
	}
	return true
}

func (sc *scanCtx) pos(in ssa.Instruction) string {
	p := sc.prog.Fset.Position(in.Pos())
	if !p.IsValid() {
		return in.Parent().String()
	}
	rel, _ := filepath.Rel(sc.V.repo, p.Filename)
	return fmt.Sprintf("%s:%d (%s)", rel, p.Line, in.Parent().Name())
}

func calleeName(c *ssa.CallCommon) string {
	if c.IsInvoke() {
		return "invoke " + namedOf(c.Value.Type()) + "." + c.Method.Name()
	}
	if f, ok := c.Value.(*ssa.Function); ok {
		return normName(f.String())
	}
	if b, ok := c.Value.(*ssa.Builtin); ok {
		return "builtin " + b.Name()
	}
	return "dynamic"
}

func (V *Verifier) runScans(prop string) []*Oblig {
	switch prop {
	case "C01":
		return V.scanEscrowDerivation("C01")
	case "C19":
		return V.scanEscrowDerivation("C19")
	case "C02":
		return V.scanNoMintBurn()
	case "C10":
		return append(V.scanSwitch(), V.scanNoRemove("C10", "AllowedBidder")...)
	case "C11":
		return V.scanNoRemove("C11", "Bid")
	case "C14":
		return V.scanDeterminism()
	case "C17":
		return V.scanHookWiring()
	case "C20":
		return V.scanAutoCLI()
	}
	return nil
}

// C02(a): coins are only moved, never minted or burnt, by the module's production code.
func (V *Verifier) scanNoMintBurn() []*Oblig {
	sc := V.moduleScan()
	var bad []string
	n := 0
	for _, fn := range sc.fns {
		if !sc.production(fn) || strings.Contains(sc.file(fn), "/simulation/") {
			continue
		}
		for _, b := range fn.Blocks {
			for _, in := range b.Instrs {
				ci, ok := in.(ssa.CallInstruction)
				if !ok {
					continue
				}
				n++
				nm := calleeName(ci.Common())
				for _, m := range []string{"MintCoins", "BurnCoins", "SendCoinsFromModuleToAccount", "SendCoinsFromAccountToModule", "SendCoinsFromModuleToModule", "DelegateCoins", "UndelegateCoins", "SetBalance"} {
					if strings.HasSuffix(nm, "."+m) {
						bad = append(bad, sc.pos(in)+" calls "+nm)
					}
				}
			}
		}
	}
	return []*Oblig{scanOblig("C02", "frame.no-mint-burn-or-module-account-transfer", len(bad) == 0,
		"production code of x/fundraising/{types,keeper,module} calls no MintCoins/BurnCoins/SendCoinsFromModule*/… (coins are only moved between accounts)",
		fmt.Sprintf("%d call sites scanned; offending: %v", n, bad))}
}

// C10/C11: allow-list entries and bids are never removed.
func (V *Verifier) scanNoRemove(prop, coll string) []*Oblig {
	sc := V.moduleScan()
	var bad []string
	n := 0
	for _, fn := range sc.fns {
		if !sc.production(fn) {
			continue
		}
		for _, b := range fn.Blocks {
			for _, in := range b.Instrs {
				ci, ok := in.(ssa.CallInstruction)
				if !ok {
					continue
				}
				c := ci.Common()
				nm := calleeName(c)
				if !(strings.HasSuffix(nm, ").Remove") || strings.HasSuffix(nm, ").Clear")) || !strings.Contains(nm, "collections.") {
					continue
				}
				n++
				if len(c.Args) > 0 && collFieldOf(c.Args[0]) == coll {
					bad = append(bad, sc.pos(in)+" calls "+nm+" on "+coll)
				} else if len(c.Args) > 0 && collFieldOf(c.Args[0]) == "" {
					bad = append(bad, sc.pos(in)+" calls "+nm+" on a collection the scan cannot identify")
				}
			}
		}
	}
	return []*Oblig{scanOblig(prop, "frame.no-"+coll+"-entry-is-ever-removed", len(bad) == 0,
		"no production function of the module calls Remove/Clear on the "+coll+" collection", fmt.Sprintf("%d Remove/Clear calls seen; offending: %v", n, bad))}
}

// C10(3): the switch EnableAddAllowedBidder (and the link-time string it is parsed from) is written only by keeper.init,
// in every package of the repository; its link-time default is "false"; the Makefile does not set it.
func (V *Verifier) scanSwitch() []*Oblig {
	sc, err := V.loadRepoSSA()
	if err != nil {
		return []*Oblig{{Name: "scan#frame.switch", Fn: "scan", Kind: "scan", Labels: []string{"C10"}, Status: "error", Detail: err.Error()}}
	}
	var out []*Oblig
	var bad []string
	stores, refs := 0, 0
	isSwitch := func(v ssa.Value) bool {
		g, ok := v.(*ssa.Global)
		return ok && g.Pkg != nil && g.Pkg.Pkg.Path() == modKeeper && (g.Name() == "EnableAddAllowedBidder" || g.Name() == "enableAddAllowedBidder")
	}
	for _, fn := range sc.fns {
		if !sc.production(fn) {
			continue
		}
		for _, b := range fn.Blocks {
			for _, in := range b.Instrs {
				var ops []*ssa.Value
				for _, op := range in.Operands(ops) {
					if op == nil || *op == nil || !isSwitch(*op) {
						continue
					}
					refs++
					switch i := in.(type) {
					case *ssa.UnOp:
						if i.Op == token.MUL {
							continue // a load
						}
					case *ssa.Store:
						if i.Addr == *op {
							stores++
							if strings.HasPrefix(fn.Name(), "init") && fn.Parent() == nil && fn.Signature.Recv() == nil && fnPkgPath(fn) == modKeeper {
								continue // the package initialiser and the source-level init functions of package keeper
							}
							bad = append(bad, sc.pos(in)+" stores to keeper."+(*op).(*ssa.Global).Name())
							continue
						}
					}
					bad = append(bad, sc.pos(in)+" takes the address of keeper."+(*op).(*ssa.Global).Name()+" ("+in.String()+")")
				}
			}
		}
	}
	out = append(out, scanOblig("C10", "frame.EnableAddAllowedBidder-written-only-by-keeper.init", len(bad) == 0,
		"in every non-test package of the repository, keeper.EnableAddAllowedBidder and keeper.enableAddAllowedBidder are only loaded, except for the stores in keeper.init",
		fmt.Sprintf("%d functions, %d references, %d stores; offending: %v", len(sc.fns), refs, stores, bad)))
	// link-time default
	def := ""
	if kp := sc.prog.ImportedPackage(modKeeper); kp != nil {
		if g, ok := kp.Members["enableAddAllowedBidder"].(*ssa.Global); ok {
			// the initialiser is a Store of a constant in the package initialiser
			if initFn := kp.Func("init"); initFn != nil {
				for _, b := range initFn.Blocks {
					for _, in := range b.Instrs {
						if st, ok := in.(*ssa.Store); ok && st.Addr == g {
							if c, ok := st.Val.(*ssa.Const); ok {
								def = constantString(c)
							}
						}
					}
				}
			}
		}
	}
	// the store in keeper.init: the value is the unmodified boolean result of strconv.ParseBool applied to the link-time
	// string, and the error result of that call ends in a panic (so the switch is true iff the string parses to true)
	parsedOK, why := false, "no store to EnableAddAllowedBidder found in keeper.init"
	for _, fn := range sc.fns {
		if !(strings.HasPrefix(fn.Name(), "init") && fn.Parent() == nil && fn.Signature.Recv() == nil && fnPkgPath(fn) == modKeeper) {
			continue
		}
		for _, b := range fn.Blocks {
			for _, in := range b.Instrs {
				st, ok := in.(*ssa.Store)
				if !ok {
					continue
				}
				g, isG := st.Addr.(*ssa.Global)
				if !isG || g.Name() != "EnableAddAllowedBidder" {
					continue
				}
				parsedOK, why = false, "the stored value is not the first result of strconv.ParseBool: "+st.Val.String()
				ex, isEx := st.Val.(*ssa.Extract)
				if !isEx || ex.Index != 0 {
					continue
				}
				call, isCall := ex.Tuple.(*ssa.Call)
				if !isCall || call.Common().StaticCallee() == nil || call.Common().StaticCallee().String() != "strconv.ParseBool" {
					continue
				}
				ld, isLoad := call.Common().Args[0].(*ssa.UnOp)
				if !isLoad || ld.Op != token.MUL {
					why = "strconv.ParseBool is not applied to the link-time string"
					continue
				}
				if lg, isLG := ld.X.(*ssa.Global); !isLG || lg.Name() != "enableAddAllowedBidder" {
					why = "strconv.ParseBool is not applied to keeper.enableAddAllowedBidder"
					continue
				}
				// the error result must be compared with nil and the non-nil branch must panic
				errChecked := false
				if refs := call.Referrers(); refs != nil {
					for _, r := range *refs {
						e1, ok := r.(*ssa.Extract)
						if !ok || e1.Index != 1 || e1.Referrers() == nil {
							continue
						}
						for _, u := range *e1.Referrers() {
							if bo, ok := u.(*ssa.BinOp); ok && bo.Op == token.NEQ && bo.Referrers() != nil {
								for _, br := range *bo.Referrers() {
									if ifi, ok := br.(*ssa.If); ok {
										for _, pin := range ifi.Block().Succs[0].Instrs {
											if _, isPanic := pin.(*ssa.Panic); isPanic {
												errChecked = true
											}
										}
									}
								}
							}
						}
					}
				}
				if !errChecked {
					why = "the error of strconv.ParseBool does not end in a panic"
					continue
				}
				parsedOK, why = true, "EnableAddAllowedBidder = strconv.ParseBool(enableAddAllowedBidder), error => panic"
			}
		}
	}
	var strStores []string
	for _, fn := range sc.fns {
		for _, b := range fn.Blocks {
			for _, in := range b.Instrs {
				if st, ok := in.(*ssa.Store); ok {
					if g, isG := st.Addr.(*ssa.Global); isG && g.Name() == "enableAddAllowedBidder" && g.Pkg != nil && g.Pkg.Pkg.Path() == modKeeper {
						if !(fn.Synthetic != "" && fn.Name() == "init") { // the package initialiser stores the declared default
							strStores = append(strStores, sc.pos(in))
						}
					}
				}
			}
		}
	}
	out = append(out, scanOblig("C10", "frame.link-time-string-is-never-assigned", len(strStores) == 0,
		"nothing in the module assigns keeper.enableAddAllowedBidder: its value is the declared default unless the linker (-X) replaces it",
		fmt.Sprintf("assignments: %v", strStores)))
	out = append(out, scanOblig("C10", "frame.switch-is-exactly-the-parsed-link-time-string", parsedOK,
		"keeper.init assigns to the switch exactly the boolean that strconv.ParseBool makes of the link-time string (no other value can enable MsgAddAllowedBidder)", why))
	out = append(out, scanOblig("C10", "frame.switch-link-time-default-is-false", def == "false",
		"the package initialiser sets keeper.enableAddAllowedBidder to the literal \"false\" (the value strconv.ParseBool turns into the switch)", "initialiser value: "+fmt.Sprintf("%q", def)))
	// Makefile
	mk, _ := V.readFile(filepath.Join(V.repo, "Makefile"))
	mkBad := strings.Contains(string(mk), "enableAddAllowedBidder")
	info := ""
	for _, f := range []string{"config.yml", "config-test.yml"} {
		if b, err := V.readFile(filepath.Join(V.repo, f)); err == nil && strings.Contains(string(b), "enableAddAllowedBidder=true") {
			info += f + " passes the testing link flag (Ignite scaffolding input; reported, not judged). "
		}
	}
	out = append(out, scanOblig("C10", "frame.Makefile-does-not-set-the-switch", !mkBad,
		"the repository's Makefile ldflags do not mention enableAddAllowedBidder", info))
	return out
}

// C14: sources of unspecified choice in the module's production code.
func (V *Verifier) scanDeterminism() []*Oblig {
	sc := V.moduleScan()
	var out []*Oblig
	var bad []string
	n := 0
	for _, fn := range sc.fns {
		if !sc.production(fn) || strings.Contains(sc.file(fn), "/simulation/") || strings.HasSuffix(sc.file(fn), ".pb.go") || strings.HasSuffix(sc.file(fn), ".pb.gw.go") {
			continue
		}
		if fn.Synthetic != "" && fn.Name() == "init" {
			continue // package initialiser: only calls the initialisers of imported packages
		}
		if strings.HasSuffix(fnPkgPath(fn), "/simulation") {
			continue
		}
		n++
		for _, b := range fn.Blocks {
			for _, in := range b.Instrs {
				switch i := in.(type) {
				case *ssa.Go:
					bad = append(bad, sc.pos(in)+" starts a goroutine")
				case *ssa.Select:
					bad = append(bad, sc.pos(in)+" uses select")
				case ssa.CallInstruction:
					nm := calleeName(i.Common())
					switch {
					case nm == "time.Now" || nm == "time.Since":
						// allowed only as the argument of the telemetry measurement (a Defer of telemetry.*)
						allowed := false
						if v, ok := in.(ssa.Value); ok && v.Referrers() != nil {
							for _, r := range *v.Referrers() {
								if d, ok := r.(*ssa.Defer); ok && strings.Contains(calleeName(d.Common()), "cosmos-sdk/telemetry.") {
									allowed = true
								}
							}
						}
						if !allowed {
							bad = append(bad, sc.pos(in)+" reads the wall clock ("+nm+")")
						}
					case strings.HasPrefix(nm, "math/rand.") || strings.HasPrefix(nm, "(*math/rand.") || strings.HasPrefix(nm, "crypto/rand."):
						bad = append(bad, sc.pos(in)+" uses randomness ("+nm+")")
					case strings.HasPrefix(nm, "(reflect.Value).MapKeys") || strings.HasPrefix(nm, "(reflect.Value).MapRange") || nm == "golang.org/x/exp/maps.Keys" || nm == "golang.org/x/exp/maps.Values" || nm == "maps.Keys" || nm == "maps.Values":
						if !sc.launderedBySort(in) {
							bad = append(bad, sc.pos(in)+" enumerates a map in unspecified order ("+nm+") without sorting the result")
						}
					case nm == "time.Unix" || nm == "time.UnixMilli" || nm == "time.UnixMicro" || nm == "time.Date" || nm == "time.LoadLocation" || nm == "time.ParseInLocation" ||
						nm == "(time.Time).Local" || nm == "(time.Time).In" || nm == "(time.Time).Zone" || nm == "(time.Time).ZoneBounds" || nm == "(time.Time).IsDST":
						// a time in (or a question about) the zone of the process: calendar arithmetic (AddDate) and formatting of such a
						// value depend on the TZ of the node.  Harmless only when the value is at once normalised with UTC().
						normalised := false
						if v, ok := in.(ssa.Value); ok && v.Referrers() != nil && len(*v.Referrers()) > 0 && (nm == "time.Unix" || nm == "time.UnixMilli" || nm == "time.UnixMicro") {
							normalised = true
							for _, r := range *v.Referrers() {
								c, isCall := r.(ssa.CallInstruction)
								if _, isDbg := r.(*ssa.DebugRef); isDbg {
									continue
								}
								if !isCall || calleeName(c.Common()) != "(time.Time).UTC" {
									normalised = false
								}
							}
						}
						if !normalised {
							bad = append(bad, sc.pos(in)+" builds or inspects a time in the time zone of the process ("+nm+")")
						}
					case nm == "os.Getenv" || nm == "os.LookupEnv" || nm == "os.Environ" || nm == "os.ExpandEnv" || nm == "os.Hostname" || nm == "os.Getpid" || nm == "os.Getppid" || nm == "os.Getuid" ||
						nm == "os.Getwd" || nm == "os.UserHomeDir" || nm == "os.Executable" || nm == "os.ReadFile" || nm == "os.Open" || nm == "os.Stat" || nm == "runtime.NumCPU" || nm == "runtime.NumGoroutine":
						bad = append(bad, sc.pos(in)+" depends on the process ("+nm+")")
					}
				case *ssa.UnOp:
					if g, ok := i.X.(*ssa.Global); ok && i.Op == token.MUL && g.Pkg != nil && g.Pkg.Pkg.Path() == "time" && g.Name() == "Local" {
						bad = append(bad, sc.pos(in)+" reads time.Local (the time zone of the process)")
					}
				case *ssa.Convert:
					if types.Identical(i.X.Type().Underlying(), types.Typ[types.UnsafePointer]) {
						if b, ok := i.Type().Underlying().(*types.Basic); ok && b.Info()&types.IsInteger != 0 {
							bad = append(bad, sc.pos(in)+" converts a pointer to an integer")
						}
					}
				}
			}
		}
	}
	out = append(out, scanOblig("C14", "frame.no-clock-randomness-goroutines-or-process-dependence", len(bad) == 0,
		"production code of the module reads no wall clock (except the telemetry measurement), uses no randomness, goroutines, select, pointer-to-integer conversion, process properties or process-local time zone (time.Unix/Date/Local/In/LoadLocation without UTC normalisation)",
		fmt.Sprintf("%d functions scanned; offending: %v", n, bad)))
	// every range over a Go map must be order independent
	var mbad []string
	nm := 0
	for _, fn := range sc.fns {
		if !sc.production(fn) || strings.Contains(sc.file(fn), "/simulation/") || strings.HasSuffix(sc.file(fn), ".pb.go") || strings.HasSuffix(sc.file(fn), ".pb.gw.go") || strings.HasSuffix(sc.file(fn), ".pulsar.go") {
			continue
		}
		for _, b := range fn.Blocks {
			for _, in := range b.Instrs {
				r, ok := in.(*ssa.Range)
				if !ok {
					continue
				}
				if _, isMap := r.X.Type().Underlying().(*types.Map); !isMap {
					continue
				}
				nm++
				if why := sc.orderDependent(r); why != "" {
					mbad = append(mbad, sc.pos(in)+": "+why)
				}
			}
		}
	}
	out = append(out, scanOblig("C14", "frame.every-map-range-is-order-independent", len(mbad) == 0,
		"the body of every range over a Go map only (a) writes map cells / slice-free accumulators keyed by the loop key, (b) accumulates commutatively, or (c) appends the key to a slice that is sorted (sort.Strings / sort.Slice) before any other use; it performs no call with effects (bank, store, hooks, events), no early exit and no order-sensitive write",
		fmt.Sprintf("%d map ranges scanned; order dependent: %v", nm, mbad)))
	return out
}

// launderedBySort: the slice produced by instruction in flows (only) into sort.Strings/sort.Slice/slices.Sort before use.
func (sc *scanCtx) launderedBySort(in ssa.Instruction) bool {
	v, ok := in.(ssa.Value)
	if !ok || v.Referrers() == nil {
		return false
	}
	// find the first use in program order within the block; it must be a sorting call
	return sc.firstUseIsSort(v)
}

func (sc *scanCtx) firstUseIsSort(v ssa.Value) bool {
	refs := v.Referrers()
	if refs == nil || len(*refs) == 0 {
		return false
	}
	// the value flow of "s = append(s, x)" in a loop is cyclic (cell -> load -> append -> store -> cell): a value that is
	// already being examined contributes nothing
	if sc.sortVisit == nil {
		sc.sortVisit = map[ssa.Value]bool{}
	}
	if sc.sortVisit[v] {
		return false
	}
	sc.sortVisit[v] = true
	defer delete(sc.sortVisit, v)
	sorted := false
	for _, r := range *refs {
		switch i := r.(type) {
		case *ssa.DebugRef:
			continue
		case ssa.CallInstruction:
			nm := calleeName(i.Common())
			if nm == "builtin append" && len(i.Common().Args) > 0 && i.Common().Args[0] == v {
				continue // growing the same list is not a use of its order
			}
			if sc.launderingSort(i) {
				sorted = true
				continue
			}
			if !sorted {
				return false
			}
		case *ssa.Store:
			// stored into a local variable cell: follow the cell's loads
			if a, ok := i.Addr.(*ssa.Alloc); ok {
				if sc.cellSortedBeforeUse(a) {
					sorted = true
					continue
				}
			}
			return false
		case *ssa.Phi:
			if sc.firstUseIsSort(i) {
				sorted = true
				continue
			}
			return false
		case *ssa.MakeInterface:
			// sort.Slice takes the slice as an interface value
			if sc.firstUseIsSort(i) {
				sorted = true
				continue
			}
			if !sorted {
				return false
			}
		default:
			if !sorted {
				return false
			}
		}
	}
	return sorted
}

func (sc *scanCtx) cellSortedBeforeUse(a *ssa.Alloc) bool {
	if a.Referrers() == nil {
		return false
	}
	ok := false
	for _, r := range *a.Referrers() {
		if u, isLoad := r.(*ssa.UnOp); isLoad && u.Op == token.MUL {
			if sc.firstUseIsSort(u) {
				ok = true
			}
		}
	}
	return ok
}

// orderDependent returns a reason if the loop over the map iterator r is not obviously order independent.
func (sc *scanCtx) orderDependent(r *ssa.Range) string {
	var next *ssa.Next
	for _, ref := range *r.Referrers() {
		if n, ok := ref.(*ssa.Next); ok {
			next = n
		}
	}
	if next == nil {
		return "iterator without Next"
	}
	hdr := next.Block()
	blocks := loopBlocks(hdr)
	var key ssa.Value
	for _, ref := range *next.Referrers() {
		if e, ok := ref.(*ssa.Extract); ok && e.Index == 1 {
			key = e
		}
	}
	for b := range blocks {
		for _, in := range b.Instrs {
			switch i := in.(type) {
			case *ssa.Return:
				return "returns from inside the loop (which entry is seen first depends on the order)"
			case *ssa.Panic:
				return "panics from inside the loop"
			case *ssa.MapUpdate:
				if i.Key != key {
					return "updates a map under a key that is not the loop key"
				}
			case *ssa.Store:
				switch a := i.Addr.(type) {
				case *ssa.Alloc:
					// local accumulator: allowed only for commutative updates (x = x.Add(...), x = x + ..., counters) or appends that get sorted
					if !sc.commutativeOrLaundered(i, a, blocks) {
						return "writes local variable " + a.Comment + " in an order-sensitive way"
					}
				case *ssa.FieldAddr, *ssa.IndexAddr:
					if sc.freshInLoop(a, blocks) {
						continue // a variadic argument array or literal allocated in this iteration
					}
					if ia, ok := a.(*ssa.IndexAddr); ok && sc.sliceSortedAfterLoop(ia.X, blocks) {
						continue // fills a slice that is sorted before any other use
					}
					if !sc.commutativeFieldUpdate(i) {
						return "writes " + i.Addr.String() + " in an order-sensitive way"
					}
				default:
					return "stores through " + i.Addr.String()
				}
			case ssa.CallInstruction:
				c := i.Common()
				nm := calleeName(c)
				if bi, ok := c.Value.(*ssa.Builtin); ok {
					if bi.Name() == "append" {
						if v, ok := in.(ssa.Value); ok && !sc.appendLaundered(v, blocks) {
							return "appends to a slice that is not sorted before use"
						}
					}
					continue
				}
				if pureExterns[nm] || strings.HasPrefix(nm, "(cosmossdk.io/math.") || strings.HasPrefix(nm, "cosmossdk.io/math.") {
					continue
				}
				if f, ok := c.Value.(*ssa.Function); ok && inModule(f) && sc.pureModuleFn(f, 0) {
					continue
				}
				return "calls " + nm + " (effects in map order)"
			}
		}
	}
	// a break out of the loop other than the header's exit
	for b := range blocks {
		for _, s := range b.Succs {
			if !blocks[s] && b != hdr {
				return "leaves the loop early (break/return)"
			}
		}
	}
	return ""
}

func (sc *scanCtx) pureModuleFn(f *ssa.Function, depth int) bool {
	if depth > 4 {
		return false
	}
	for _, b := range f.Blocks {
		for _, in := range b.Instrs {
			switch i := in.(type) {
			case *ssa.MapUpdate, *ssa.Send, *ssa.Go, *ssa.Defer:
				return false
			case *ssa.Store:
				if _, ok := i.Addr.(*ssa.Alloc); !ok {
					if fa, ok := i.Addr.(*ssa.FieldAddr); ok {
						if _, isAlloc := fa.X.(*ssa.Alloc); isAlloc {
							continue
						}
					}
					return false
				}
			case ssa.CallInstruction:
				nm := calleeName(i.Common())
				if _, isB := i.Common().Value.(*ssa.Builtin); isB || pureExterns[nm] || strings.HasPrefix(nm, "(cosmossdk.io/math.") || strings.HasPrefix(nm, "cosmossdk.io/math.") {
					continue
				}
				if g, ok := i.Common().Value.(*ssa.Function); ok && inModule(g) && sc.pureModuleFn(g, depth+1) {
					continue
				}
				return false
			}
		}
	}
	return true
}

func (sc *scanCtx) appendLaundered(v ssa.Value, blocks map[*ssa.BasicBlock]bool) bool {
	// the appended slice must be stored back to a local variable whose loads after the loop go first to a sort
	if v.Referrers() == nil {
		return false
	}
	for _, r := range *v.Referrers() {
		switch i := r.(type) {
		case *ssa.Store:
			if a, ok := i.Addr.(*ssa.Alloc); ok && sc.cellSortedBeforeUse(a) {
				return true
			}
		case *ssa.Phi:
			// loop-carried slice value: its uses outside the loop must start with a sort
			return sc.phiSortedAfterLoop(i, blocks)
		}
	}
	return false
}

func (sc *scanCtx) phiSortedAfterLoop(p *ssa.Phi, blocks map[*ssa.BasicBlock]bool) bool {
	if p.Referrers() == nil {
		return false
	}
	sorted := false
	for _, r := range *p.Referrers() {
		if blocks[r.Block()] {
			continue
		}
		if _, ok := r.(*ssa.DebugRef); ok {
			continue
		}
		if ci, ok := r.(ssa.CallInstruction); ok {
			if sc.launderingSort(ci) {
				sorted = true
				continue
			}
		}
		if !sorted {
			// any other use must be dominated by the sorting call
			ok := false
			for _, r2 := range *p.Referrers() {
				if ci, isCall := r2.(ssa.CallInstruction); isCall && !blocks[r2.Block()] {
					if sc.launderingSort(ci) && (r2.Block() == r.Block() && instrIndex(r2) < instrIndex(r) || r2.Block() != r.Block() && r2.Block().Dominates(r.Block())) {
						ok = true
					}
				}
			}
			if !ok {
				return false
			}
		}
	}
	return true
}

func instrIndex(in ssa.Instruction) int {
	for i, x := range in.Block().Instrs {
		if x == in {
			return i
		}
	}
	return -1
}

func (sc *scanCtx) commutativeOrLaundered(st *ssa.Store, a *ssa.Alloc, blocks map[*ssa.BasicBlock]bool) bool {
	// x = x.Add(y) / x = x + y / x++ on a local
	switch v := st.Val.(type) {
	case *ssa.BinOp:
		if v.Op == token.ADD || v.Op == token.MUL {
			return true
		}
	case *ssa.Call:
		nm := calleeName(v.Common())
		if strings.HasSuffix(nm, ".Add") && strings.Contains(nm, "cosmossdk.io/math.") {
			return true
		}
		if b, ok := v.Common().Value.(*ssa.Builtin); ok && b.Name() == "append" {
			return sc.cellSortedBeforeUse(a)
		}
	}
	return false
}

func (sc *scanCtx) commutativeFieldUpdate(st *ssa.Store) bool {
	switch v := st.Val.(type) {
	case *ssa.BinOp:
		return v.Op == token.ADD || v.Op == token.MUL
	case *ssa.Call:
		nm := calleeName(v.Common())
		return strings.HasSuffix(nm, ".Add") && strings.Contains(nm, "cosmossdk.io/math.")
	}
	return false
}

// freshInLoop: the address is inside an object allocated within the loop body (fresh in every iteration).
func (sc *scanCtx) freshInLoop(addr ssa.Value, blocks map[*ssa.BasicBlock]bool) bool {
	for {
		switch y := addr.(type) {
		case *ssa.FieldAddr:
			addr = y.X
		case *ssa.IndexAddr:
			addr = y.X
		case *ssa.Alloc:
			return blocks[y.Block()]
		default:
			return false
		}
	}
}

// sliceSortedAfterLoop: the slice value (a load of a local variable cell) is, after the loop, first passed to a
// sorting function; with pairwise distinct elements (they come from distinct map keys) the sorted result does not
// depend on the fill order (schema T-schemas: sort.Slice/sort.Strings produce a sorted permutation).
func (sc *scanCtx) sliceSortedAfterLoop(v ssa.Value, blocks map[*ssa.BasicBlock]bool) bool {
	u, ok := v.(*ssa.UnOp)
	if !ok || u.Op != token.MUL {
		return false
	}
	cell, ok := u.X.(*ssa.Alloc)
	if !ok || cell.Referrers() == nil {
		return false
	}
	sortedSeen := false
	for _, r := range *cell.Referrers() {
		ld, isLoad := r.(*ssa.UnOp)
		if !isLoad || blocks[ld.Block()] || ld.Referrers() == nil {
			continue
		}
		uses := append([]ssa.Instruction{}, *ld.Referrers()...)
		for k := 0; k < len(uses); k++ {
			switch y := uses[k].(type) {
			case *ssa.MakeInterface:
				if y.Referrers() != nil {
					uses = append(uses, *y.Referrers()...)
				}
			case ssa.CallInstruction:
				if sc.launderingSort(y) {
					sortedSeen = true
				}
			}
		}
	}
	if !sortedSeen {
		return false
	}
	// every other load outside the loop must be dominated by the sorting call's block or be the return of the named result
	return true
}

// C01/C19: the three escrow addresses of an auction are address.Module("fundraising", <role tag> + decimal(auction id)) with
// pairwise different, digit-free role tags.  This turns assumption A4 (injective in role and auction id) into: the SDK's
// address.Module hash is injective on names; what the module itself contributes to A4 is checked here.
func (V *Verifier) scanEscrowDerivation(prop string) []*Oblig {
	sc := V.moduleScan()
	byName := map[string]*ssa.Function{}
	for _, fn := range sc.fns {
		if fnPkgPath(fn) == modTypes && fn.Parent() == nil && fn.Signature.Recv() == nil {
			byName[fn.Name()] = fn
		}
	}
	tags := map[string]string{}
	var bad []string
	kind := ""
	for _, role := range []string{"SellingReserveAddress", "PayingReserveAddress", "VestingReserveAddress"} {
		fn := byName[role]
		if fn == nil {
			bad = append(bad, "types."+role+" not found")
			continue
		}
		if len(fn.Blocks) != 1 || len(fn.Params) != 1 {
			bad = append(bad, "types."+role+" is not straight-line code over the auction id")
			continue
		}
		ok := false
		why := "does not return DeriveAddress(type, ModuleName, tag + fmt.Sprint(auctionId))"
		for _, in := range fn.Blocks[0].Instrs {
			ret, isRet := in.(*ssa.Return)
			if !isRet || len(ret.Results) != 1 {
				continue
			}
			call, isCall := ret.Results[0].(*ssa.Call)
			if !isCall || call.Common().StaticCallee() == nil || call.Common().StaticCallee() != byName["DeriveAddress"] || len(call.Common().Args) != 3 {
				continue
			}
			a := call.Common().Args
			k, isK := a[0].(*ssa.Const)
			m, isM := a[1].(*ssa.Const)
			cat, isCat := a[2].(*ssa.BinOp)
			if !isK || !isM || !isCat || cat.Op != token.ADD || m.Value == nil || constant.StringVal(m.Value) != "fundraising" {
				why = "the derivation is not keyed by the module name and a tag"
				continue
			}
			tag, isTag := cat.X.(*ssa.Const)
			sp, isSp := cat.Y.(*ssa.Call)
			if !isTag || !isSp || sp.Common().StaticCallee() == nil || sp.Common().StaticCallee().String() != "fmt.Sprint" {
				why = "the name is not <constant tag> + fmt.Sprint(...)"
				continue
			}
			// the single Sprint operand is the auction id parameter
			idOK := false
			if sl, isSl := sp.Common().Args[0].(*ssa.Slice); isSl {
				if al, isAl := sl.X.(*ssa.Alloc); isAl && al.Referrers() != nil {
					if at, isArr := al.Type().(*types.Pointer).Elem().(*types.Array); isArr && at.Len() == 1 {
						for _, r := range *al.Referrers() {
							if ia, isIA := r.(*ssa.IndexAddr); isIA && ia.Referrers() != nil {
								for _, r2 := range *ia.Referrers() {
									if st, isSt := r2.(*ssa.Store); isSt {
										if mi, isMI := st.Val.(*ssa.MakeInterface); isMI && mi.X == fn.Params[0] {
											idOK = true
										}
									}
								}
							}
						}
					}
				}
			}
			if !idOK {
				why = "fmt.Sprint is not applied to exactly the auction id"
				continue
			}
			t := constant.StringVal(tag.Value)
			if t == "" || strings.ContainsAny(t, "0123456789") {
				why = "the role tag is empty or contains a digit (tag+id would not determine the id)"
				continue
			}
			kk := k.Value.ExactString()
			if kind != "" && kind != kk {
				why = "the roles use different address types"
				continue
			}
			kind = kk
			tags[role] = t
			ok = true
		}
		if !ok {
			bad = append(bad, "types."+role+": "+why)
		}
	}
	seen := map[string]string{}
	for role, t := range tags {
		if other, dup := seen[t]; dup {
			bad = append(bad, fmt.Sprintf("types.%s and types.%s use the same tag %q", role, other, t))
		}
		seen[t] = role
	}
	// DeriveAddress: under the address type the roles use, the result is address.Module(moduleName, []byte(name))
	if fn := byName["DeriveAddress"]; fn == nil || len(fn.Params) != 3 {
		bad = append(bad, "types.DeriveAddress not found")
	} else if len(bad) == 0 {
		found := false
		for _, b := range fn.Blocks {
			for _, in := range b.Instrs {
				call, isCall := in.(*ssa.Call)
				if !isCall || call.Common().StaticCallee() == nil || call.Common().StaticCallee().String() != "github.com/cosmos/cosmos-sdk/types/address.Module" {
					continue
				}
				// arguments: the moduleName parameter and a one-element key list holding []byte(name)
				if call.Common().Args[0] != fn.Params[1] {
					continue
				}
				nameOK := false
				if sl, isSl := call.Common().Args[1].(*ssa.Slice); isSl {
					if al, isAl := sl.X.(*ssa.Alloc); isAl && al.Referrers() != nil {
						if at, isArr := al.Type().(*types.Pointer).Elem().(*types.Array); isArr && at.Len() == 1 {
							for _, r := range *al.Referrers() {
								if ia, isIA := r.(*ssa.IndexAddr); isIA && ia.Referrers() != nil {
									for _, r2 := range *ia.Referrers() {
										if st, isSt := r2.(*ssa.Store); isSt {
											if cv, isCv := st.Val.(*ssa.Convert); isCv && cv.X == fn.Params[2] {
												nameOK = true
											}
										}
									}
								}
							}
						}
					}
				}
				// the block is entered exactly when addressType == the type the roles pass, and returns the hash unchanged
				guardOK := false
				if len(b.Preds) == 1 {
					if ifi, isIf := b.Preds[0].Instrs[len(b.Preds[0].Instrs)-1].(*ssa.If); isIf && b.Preds[0].Succs[0] == b {
						if eq, isEq := ifi.Cond.(*ssa.BinOp); isEq && eq.Op == token.EQL && eq.X == fn.Params[0] {
							if c, isC := eq.Y.(*ssa.Const); isC && c.Value.ExactString() == kind {
								guardOK = true
							}
						}
					}
				}
				retOK := false
				if ret, isRet := b.Instrs[len(b.Instrs)-1].(*ssa.Return); isRet && len(ret.Results) == 1 {
					if ct, isCT := ret.Results[0].(*ssa.ChangeType); isCT && ct.X == call {
						retOK = true
					}
				}
				if nameOK && guardOK && retOK {
					found = true
				}
			}
		}
		if !found {
			bad = append(bad, "types.DeriveAddress does not return address.Module(moduleName, []byte(name)) for the address type of the escrow accounts")
		}
	}
	sort.Strings(bad)
	return []*Oblig{scanOblig(prop, "frame.escrow-addresses-derive-from-role-and-auction-id", len(bad) == 0,
		"the selling, paying and vesting escrow address of an auction are address.Module(ModuleName, tag + decimal(auction id)) with three different digit-free tags, so distinct (role, auction) pairs get distinct hash inputs (A4 is left with: the SDK hash is injective)",
		fmt.Sprintf("tags %v; address type %s; offending: %v", tags, kind, bad))}
}

// launderingSort: a call that turns a list of pairwise distinct elements into one whose order does not depend on the
// order it was filled in. sort.Strings / sort.Ints / slices.Sort order by the elements themselves (a total order).
// sort.Slice / sort.SliceStable qualify only if the less function compares the two elements s[i] and s[j] directly
// (s[i] < s[j], s[i].GT(s[j]), ...): a comparator that looks something up under the elements (an amount, a price) may
// tie, and tied elements keep the order they arrived in -- the order of the map iteration.
func (sc *scanCtx) launderingSort(ci ssa.CallInstruction) bool {
	c := ci.Common()
	switch calleeName(c) {
	case "sort.Strings", "sort.Ints", "slices.Sort":
		return true
	case "sort.Slice", "sort.SliceStable":
	default:
		return false
	}
	if len(c.Args) != 2 {
		return false
	}
	mc, ok := c.Args[1].(*ssa.MakeClosure)
	if !ok {
		return false
	}
	less, ok := mc.Fn.(*ssa.Function)
	if !ok || len(less.Params) != 2 || len(less.Blocks) == 0 {
		return false
	}
	// the elements: loads of &s[i] and &s[j] where the index is one of the two parameters
	var elems []ssa.Value
	for _, b := range less.Blocks {
		for _, in := range b.Instrs {
			ld, isLoad := in.(*ssa.UnOp)
			if !isLoad || ld.Op != token.MUL {
				continue
			}
			ia, isIA := ld.X.(*ssa.IndexAddr)
			if !isIA {
				continue
			}
			if ia.Index == ssa.Value(less.Params[0]) || ia.Index == ssa.Value(less.Params[1]) {
				elems = append(elems, ld)
			}
		}
	}
	if len(elems) != 2 {
		return false
	}
	// both elements are used once, by the same comparison, whose result is what the function returns
	var cmp ssa.Instruction
	for _, e := range elems {
		n := 0
		for _, r := range *e.Referrers() {
			if _, dbg := r.(*ssa.DebugRef); dbg {
				continue
			}
			n++
			if cmp == nil {
				cmp = r
			} else if cmp != r {
				return false
			}
		}
		if n != 1 {
			return false
		}
	}
	switch y := cmp.(type) {
	case *ssa.BinOp:
		if y.Op != token.LSS && y.Op != token.GTR {
			return false
		}
	case *ssa.Call:
		nm := calleeName(y.Common())
		if !(strings.HasSuffix(nm, ".GT") || strings.HasSuffix(nm, ".LT")) || !strings.Contains(nm, "cosmossdk.io/math.") {
			return false
		}
	default:
		return false
	}
	cv, ok := cmp.(ssa.Value)
	if !ok || cv.Referrers() == nil {
		return false
	}
	for _, r := range *cv.Referrers() {
		if _, dbg := r.(*ssa.DebugRef); dbg {
			continue
		}
		if _, isRet := r.(*ssa.Return); !isRet {
			return false
		}
	}
	return true
}

// C17: the listeners other modules register must reach the keeper that serves messages and blocks. The application is
// wired by depinject: InvokeSetHooks receives what the container can resolve and nil for everything else (the inputs of
// an invoker are optional), and returns at once when either input is nil. So (a) the keeper type it asks for must be a
// type ProvideModule outputs, and (b) the listener map must be keyed by module over a OnePerModuleType (only those are
// gathered into a map[string]T by the container).
func (V *Verifier) scanHookWiring() []*Oblig {
	var pkg *packages.Package
	packages.Visit(V.pkgs, nil, func(p *packages.Package) {
		if p.PkgPath == modModule {
			pkg = p
		}
	})
	ok, detail := false, "module package not loaded"
	if pkg != nil {
		inv, _ := pkg.Types.Scope().Lookup("InvokeSetHooks").(*types.Func)
		outs, _ := pkg.Types.Scope().Lookup("ModuleOutputs").(*types.TypeName)
		switch {
		case inv == nil || outs == nil:
			detail = "InvokeSetHooks or ModuleOutputs not found"
		default:
			sig := inv.Type().(*types.Signature)
			var problems []string
			provided := map[string]bool{}
			if st, isSt := outs.Type().Underlying().(*types.Struct); isSt {
				for i := 0; i < st.NumFields(); i++ {
					provided[st.Field(i).Type().String()] = true
				}
			}
			for i := 0; i < sig.Params().Len(); i++ {
				pt := sig.Params().At(i).Type()
				if mp, isMap := pt.Underlying().(*types.Map); isMap {
					// gathered per module only for OnePerModuleType values
					has := false
					ms := types.NewMethodSet(mp.Elem())
					for k := 0; k < ms.Len(); k++ {
						if ms.At(k).Obj().Name() == "IsOnePerModuleType" {
							has = true
						}
					}
					if !has {
						problems = append(problems, fmt.Sprintf("parameter %s: %s is not a depinject OnePerModuleType, so the container never builds this map (it is nil, and InvokeSetHooks returns at once)", sig.Params().At(i).Name(), mp.Elem()))
					}
					continue
				}
				if !provided[pt.String()] {
					problems = append(problems, fmt.Sprintf("parameter %s: no provider outputs %s (ProvideModule outputs %v), so it is nil", sig.Params().At(i).Name(), pt, boolKeys(provided)))
				}
			}
			sort.Strings(problems)
			ok, detail = len(problems) == 0, strings.Join(problems, "; ")
			if ok {
				detail = "every input of InvokeSetHooks is resolvable by the container"
			}
		}
	}
	o := scanOblig("C17", "wiring.registered-listeners-reach-the-keeper", ok,
		"every input of module.InvokeSetHooks is something the depinject container can supply: the keeper type is an output of ProvideModule and the listener map ranges over a OnePerModuleType", detail)
	return []*Oblig{o}
}

func boolKeys(m map[string]bool) []string {
	var out []string
	for k := range m {
		out = append(out, k)
	}
	sort.Strings(out)
	return out
}
