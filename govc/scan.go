package main

func (V *Verifier) runScans(prop string) []*Oblig { return nil }
