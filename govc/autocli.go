package main

// C20: obligations on the value returned by AppModule.AutoCLIOptions. The function body is one composite literal plus
// a conditional append; its command descriptors are extracted mechanically from the typed AST on every run and
// checked against the request messages of the two services, which are extracted from the .proto files and
// cross-checked against the protobuf struct tags of the generated Go types.

import (
	"fmt"
	"go/ast"
	"go/constant"
	"go/parser"
	"go/token"
	"go/types"
	"path/filepath"
	"reflect"
	"regexp"
	"sort"
	"strings"

	"golang.org/x/tools/go/packages"
	"golang.org/x/tools/go/ssa"
)

type cliCmd struct {
	Service    string // "Query" or "Tx"
	RpcMethod  string
	Use        string
	Alias      []string
	Skip       bool
	Positional []string
	Cond       string // non-empty: only present under this condition
	Pos        string
}

func (V *Verifier) scanAutoCLI() []*Oblig {
	fail := func(msg string) []*Oblig {
		return []*Oblig{{Name: "scan#autocli.extract", Fn: "module.(AppModule).AutoCLIOptions", Kind: "scan", Labels: []string{"C20"}, Status: "error", Detail: msg,
			Clause: "the command descriptors of AutoCLIOptions must be extractable"}}
	}
	var pkg *packages.Package
	packages.Visit(V.pkgs, nil, func(p *packages.Package) {
		if p.PkgPath == modModule {
			pkg = p
		}
	})
	if pkg == nil {
		return fail("module package not loaded")
	}
	cmds, err := extractCLI(V, pkg)
	if err != nil {
		return fail(err.Error())
	}
	svc, msgs, err := V.protoTables()
	if err != nil {
		return fail(err.Error())
	}
	var out []*Oblig
	add := func(name string, ok bool, clause, detail string) {
		o := scanOblig("C20", "autocli."+name, ok, clause, detail)
		o.Fn = "module.(AppModule).AutoCLIOptions"
		o.Backend = "ground-evaluation"
		out = append(out, o)
	}
	// cross-check of the proto tables against the generated Go types
	if tp := V.typesPkg(); tp != nil {
		var bad []string
		for m, fields := range msgs {
			obj := tp.Scope().Lookup(m)
			if obj == nil {
				continue
			}
			st, ok := obj.Type().Underlying().(*types.Struct)
			if !ok {
				continue
			}
			tags := map[string]bool{}
			for i := 0; i < st.NumFields(); i++ {
				tag := reflect.StructTag(st.Tag(i)).Get("protobuf")
				for _, part := range strings.Split(tag, ",") {
					if strings.HasPrefix(part, "name=") {
						tags[strings.TrimPrefix(part, "name=")] = true
					}
				}
			}
			for f := range fields {
				if !tags[f] {
					bad = append(bad, m+"."+f)
				}
			}
			for f := range tags {
				if !fields[f] {
					bad = append(bad, m+"."+f+" (only in the Go type)")
				}
			}
		}
		sort.Strings(bad)
		add("proto-tables-agree-with-generated-types", len(bad) == 0, "the request fields read from the .proto files are the protobuf names in the struct tags of the generated Go request types", fmt.Sprintf("%d request messages; disagreements: %v", len(msgs), bad))
	}
	// the descriptors only count when autocli finds them: the value ProvideModule hands to the application as its
	// appmodule.AppModule must carry AutoCLIOptions() *autocliv1.ModuleOptions in its method set (autocli asks with a type assertion)
	{
		okReg, detail := false, "module.ProvideModule hands no appmodule.AppModule to the application"
		for _, fn := range V.moduleScan().fns {
			if fn.Name() != "ProvideModule" || fnPkgPath(fn) != modModule || fn.Parent() != nil {
				continue
			}
			for _, b := range fn.Blocks {
				for _, in := range b.Instrs {
					mi, isMI := in.(*ssa.MakeInterface)
					if !isMI {
						continue
					}
					nt, isNamed := mi.Type().(*types.Named)
					if !isNamed || nt.Obj().Name() != "AppModule" || nt.Obj().Pkg() == nil || nt.Obj().Pkg().Path() != "cosmossdk.io/core/appmodule" {
						continue
					}
					dyn := mi.X.Type()
					sel := types.NewMethodSet(dyn).Lookup(nil, "AutoCLIOptions")
					if sel == nil {
						okReg, detail = false, fmt.Sprintf("the module value of type %s has no method AutoCLIOptions in its method set: autocli registers no command for the module", dyn)
						continue
					}
					sig := sel.Type().(*types.Signature)
					okReg = sig.Params().Len() == 0 && sig.Results().Len() == 1 && sig.Results().At(0).Type().String() == "*cosmossdk.io/api/cosmos/autocli/v1.ModuleOptions"
					detail = fmt.Sprintf("module value of type %s; AutoCLIOptions has type %s", dyn, sig)
				}
			}
		}
		add("descriptors-are-registered", okReg, "the module value given to the application implements autocli's HasAutoCLIConfig (AutoCLIOptions() *autocliv1.ModuleOptions), so the descriptors checked below are the commands of the binary", detail)
	}
	// ... and when the root command hands them to autocli: NewRootCmd injects an autocli.AppOptions, calls its
	// EnhanceRootCommand on the command it returns (unconditionally, error => panic), and main executes that command.
	// (Source-level obligation on cmd/fundraisingd: the package is not loaded with types, it links the whole application.)
	{
		okRoot, detail := V.rootCmdEnhanced()
		add("root-command-is-enhanced-with-the-descriptors", okRoot, "cmd.NewRootCmd returns the command on which autocli.AppOptions.EnhanceRootCommand was called with the injected module options, and main executes it", detail)
	}
	used := map[string]map[string]bool{"Query": {}, "Tx": {}}
	names := map[string]map[string]string{"Query": {}, "Tx": {}}
	phRe := regexp.MustCompile(`\[([a-zA-Z0-9_-]+)\]`)
	for _, c := range cmds {
		id := fmt.Sprintf("%s.%s", c.Service, c.RpcMethod)
		req, isMethod := svc[c.Service][c.RpcMethod]
		add("method-exists/"+id, isMethod, "RpcMethod names an rpc of the service", fmt.Sprintf("%s at %s", c.RpcMethod, c.Pos))
		if !isMethod {
			continue
		}
		used[c.Service][c.RpcMethod] = true
		if c.Skip {
			continue
		}
		fields := msgs[req]
		var missing []string
		seen := map[string]bool{}
		dup := ""
		for _, p := range c.Positional {
			if !fields[p] {
				missing = append(missing, p)
			}
			if seen[p] {
				dup = p
			}
			seen[p] = true
		}
		add("positional-fields-exist/"+id, len(missing) == 0, "every positional argument binds to a field that exists in the request message (autocli resolves the names against the protobuf descriptor at start-up and panics otherwise)",
			fmt.Sprintf("request %s has fields %v; not found: %v", req, keysOf(fields), missing))
		add("no-field-bound-twice/"+id, dup == "", "no request field is bound by two positional arguments", dup)
		ph := phRe.FindAllStringSubmatch(c.Use, -1)
		add("placeholders-match-arguments/"+id, len(ph) == len(c.Positional), "the usage line shows one [placeholder] per positional argument", fmt.Sprintf("use %q, %d positional arguments", c.Use, len(c.Positional)))
		if len(ph) == len(c.Positional) {
			var wrong []string
			for i, m := range ph {
				if strings.ReplaceAll(m[1], "-", "_") != c.Positional[i] {
					wrong = append(wrong, fmt.Sprintf("#%d [%s] binds %s", i+1, m[1], c.Positional[i]))
				}
			}
			add("placeholder-order-is-binding-order/"+id, len(wrong) == 0, "the k-th [placeholder] of the usage line names the field the k-th positional argument is sent as (what the user types is what is sent)", strings.Join(wrong, "; "))
		}
		cmdName := strings.Fields(c.Use + " ?")[0]
		if c.Use != "" {
			add("command-name-names-its-rpc/"+id, cmdName == kebabCase(c.RpcMethod), "the command a user types is the kebab-case name of the rpc method it calls (list-bid calls ListBid): a command wired to another method sends a different request than its name and help promise", fmt.Sprintf("command %q calls %s", cmdName, c.RpcMethod))
		}
		// aliases share the name space of the commands of their service
		for _, a := range c.Alias {
			if prev, dup := names[c.Service][a]; dup {
				add("command-names-unique/"+id+"/alias-"+a, false, "an alias must not be the name or alias of another command of the service (cobra resolves it to the first match: the other command becomes unreachable under it)", fmt.Sprintf("alias %q of %s is already used by %s", a, c.RpcMethod, prev))
			} else {
				names[c.Service][a] = c.RpcMethod
				add("command-names-unique/"+id+"/alias-"+a, true, "an alias must not be the name or alias of another command of the service", a)
			}
		}
		if prev, dupName := names[c.Service][cmdName]; dupName {
			add("command-names-unique/"+id, false, "two rpc methods of one service must not share a command name (autocli silently drops the second)", fmt.Sprintf("%q is used by %s and %s", cmdName, prev, c.RpcMethod))
		} else {
			names[c.Service][cmdName] = c.RpcMethod
			add("command-names-unique/"+id, true, "two rpc methods of one service must not share a command name (autocli silently drops the second)", cmdName)
		}
	}
	// reachability: every rpc is listed (not skipped) or left to autocli's generated command; allowed exceptions are
	// the authority-gated UpdateParams and AddAllowedBidder (present only with the testing switch)
	for _, s := range []string{"Query", "Tx"} {
		var unreachable []string
		for m := range svc[s] {
			for _, c := range cmds {
				if c.Service == s && c.RpcMethod == m && c.Skip && m != "UpdateParams" {
					unreachable = append(unreachable, m)
				}
			}
		}
		sort.Strings(unreachable)
		add("every-rpc-reachable/"+s, len(unreachable) == 0, "every rpc of the service has a command (listed, or generated by autocli); only the authority-gated UpdateParams may be skipped", fmt.Sprintf("methods %v; skipped: %v", keysOfS(svc[s]), unreachable))
	}
	// AddAllowedBidder appears only under the testing switch
	for _, c := range cmds {
		if c.RpcMethod == "AddAllowedBidder" {
			add("add-allowed-bidder-only-with-the-testing-switch", strings.Contains(c.Cond, "EnableAddAllowedBidder"), "the AddAllowedBidder command is registered only when keeper.EnableAddAllowedBidder is set", "condition: "+c.Cond)
		}
	}
	return out
}

func keysOf(m map[string]bool) []string {
	var ks []string
	for k := range m {
		ks = append(ks, k)
	}
	sort.Strings(ks)
	return ks
}
func keysOfS(m map[string]string) []string {
	var ks []string
	for k := range m {
		ks = append(ks, k)
	}
	sort.Strings(ks)
	return ks
}

// extractCLI reads the RpcCommandOptions literals of AutoCLIOptions from the typed AST.
func extractCLI(V *Verifier, pkg *packages.Package) ([]cliCmd, error) {
	var fn *ast.FuncDecl
	for _, f := range pkg.Syntax {
		for _, d := range f.Decls {
			if fd, ok := d.(*ast.FuncDecl); ok && fd.Name.Name == "AutoCLIOptions" && fd.Recv != nil {
				fn = fd
			}
		}
	}
	if fn == nil {
		return nil, fmt.Errorf("AppModule.AutoCLIOptions not found")
	}
	info := pkg.TypesInfo
	str := func(e ast.Expr) (string, bool) {
		if tv, ok := info.Types[e]; ok && tv.Value != nil && tv.Value.Kind() == constant.String {
			return constant.StringVal(tv.Value), true
		}
		return "", false
	}
	var cmds []cliCmd
	var readCmd func(lit *ast.CompositeLit, service, cond string) error
	readCmd = func(lit *ast.CompositeLit, service, cond string) error {
		c := cliCmd{Service: service, Cond: cond, Pos: pkg.Fset.Position(lit.Pos()).String()}
		for _, el := range lit.Elts {
			kv, ok := el.(*ast.KeyValueExpr)
			if !ok {
				return fmt.Errorf("%s: positional composite literal", c.Pos)
			}
			key := kv.Key.(*ast.Ident).Name
			switch key {
			case "RpcMethod":
				s, ok := str(kv.Value)
				if !ok {
					return fmt.Errorf("%s: RpcMethod is not a constant string", c.Pos)
				}
				c.RpcMethod = s
			case "Use":
				s, ok := str(kv.Value)
				if !ok {
					return fmt.Errorf("%s: Use is not a constant string", c.Pos)
				}
				c.Use = s
			case "Alias":
				al, ok := kv.Value.(*ast.CompositeLit)
				if !ok {
					return fmt.Errorf("%s: Alias is not a literal", c.Pos)
				}
				for _, ae := range al.Elts {
					a, ok := str(ae)
					if !ok {
						return fmt.Errorf("%s: alias is not a constant string", c.Pos)
					}
					c.Alias = append(c.Alias, a)
				}
			case "Skip":
				if tv, ok := info.Types[kv.Value]; ok && tv.Value != nil {
					c.Skip = constant.BoolVal(tv.Value)
				}
			case "PositionalArgs":
				pl, ok := kv.Value.(*ast.CompositeLit)
				if !ok {
					return fmt.Errorf("%s: PositionalArgs is not a literal", c.Pos)
				}
				for _, pe := range pl.Elts {
					var al *ast.CompositeLit
					switch y := pe.(type) {
					case *ast.CompositeLit:
						al = y
					case *ast.UnaryExpr:
						al, _ = y.X.(*ast.CompositeLit)
					}
					if al == nil {
						return fmt.Errorf("%s: positional argument is not a literal", c.Pos)
					}
					for _, ae := range al.Elts {
						akv, ok := ae.(*ast.KeyValueExpr)
						if ok && akv.Key.(*ast.Ident).Name == "ProtoField" {
							s, ok := str(akv.Value)
							if !ok {
								return fmt.Errorf("%s: ProtoField is not a constant string", c.Pos)
							}
							c.Positional = append(c.Positional, s)
						}
					}
				}
			}
		}
		cmds = append(cmds, c)
		return nil
	}
	var walkErr error
	var visit func(n ast.Node, service, cond string)
	visit = func(n ast.Node, service, cond string) {
		ast.Inspect(n, func(m ast.Node) bool {
			if walkErr != nil {
				return false
			}
			switch y := m.(type) {
			case *ast.IfStmt:
				visit(y.Body, service, exprText(y.Cond))
				if y.Else != nil {
					visit(y.Else, service, "!("+exprText(y.Cond)+")")
				}
				return false
			case *ast.KeyValueExpr:
				if id, ok := y.Key.(*ast.Ident); ok && (id.Name == "Query" || id.Name == "Tx") {
					visit(y.Value, id.Name, cond)
					return false
				}
			case *ast.CompositeLit:
				if isRpcLit(info, y) {
					svc := service
					if svc == "" {
						svc = serviceOfAppend(info, m, n)
					}
					if err := readCmd(y, svc, cond); err != nil {
						walkErr = err
					}
					return false
				}
			case *ast.AssignStmt:
				// moduloOpts.Tx.RpcCommandOptions = append(moduloOpts.Tx.RpcCommandOptions, &RpcCommandOptions{...})
				if len(y.Lhs) == 1 {
					t := exprText(y.Lhs[0])
					if strings.Contains(t, ".Tx.") {
						visit(y.Rhs[0], "Tx", cond)
						return false
					}
					if strings.Contains(t, ".Query.") {
						visit(y.Rhs[0], "Query", cond)
						return false
					}
				}
			}
			return true
		})
	}
	visit(fn.Body, "", "")
	if walkErr != nil {
		return nil, walkErr
	}
	if len(cmds) == 0 {
		return nil, fmt.Errorf("no RpcCommandOptions literal found in AutoCLIOptions")
	}
	for _, c := range cmds {
		if c.Service == "" {
			return nil, fmt.Errorf("%s: command outside a Query/Tx descriptor", c.Pos)
		}
	}
	return cmds, nil
}

func isRpcLit(info *types.Info, lit *ast.CompositeLit) bool {
	if tv, ok := info.Types[lit]; ok {
		t := tv.Type
		if p, ok := t.(*types.Pointer); ok {
			t = p.Elem()
		}
		if n, ok := t.(*types.Named); ok {
			return n.Obj().Name() == "RpcCommandOptions"
		}
	}
	return false
}

func serviceOfAppend(info *types.Info, n, root ast.Node) string { return "" }

func exprText(e ast.Expr) string {
	switch y := e.(type) {
	case *ast.Ident:
		return y.Name
	case *ast.SelectorExpr:
		return exprText(y.X) + "." + y.Sel.Name
	case *ast.UnaryExpr:
		return y.Op.String() + exprText(y.X)
	case *ast.ParenExpr:
		return "(" + exprText(y.X) + ")"
	case *ast.BinaryExpr:
		return exprText(y.X) + " " + y.Op.String() + " " + exprText(y.Y)
	case *ast.CallExpr:
		return exprText(y.Fun) + "(…)"
	}
	return fmt.Sprintf("%T", e)
}

// protoTables: service -> method -> request message; message -> set of field names.
func (V *Verifier) protoTables() (map[string]map[string]string, map[string]map[string]bool, error) {
	svc := map[string]map[string]string{"Query": {}, "Tx": {}}
	msgs := map[string]map[string]bool{}
	rpcRe := regexp.MustCompile(`rpc\s+(\w+)\s*\(\s*(\w+)\s*\)`)
	msgRe := regexp.MustCompile(`^message\s+(\w+)\s*\{`)
	fieldRe := regexp.MustCompile(`^\s*(?:repeated\s+|optional\s+)?[\w.]+\s+(\w+)\s*=\s*\d+`)
	for file, s := range map[string]string{"query.proto": "Query", "tx.proto": "Tx"} {
		b, err := V.readFile(filepath.Join(V.repo, "proto/fundraising/fundraising/v1", file))
		if err != nil {
			return nil, nil, err
		}
		cur := ""
		depth := 0
		for _, line := range strings.Split(string(b), "\n") {
			tl := strings.TrimSpace(line)
			if strings.HasPrefix(tl, "//") {
				continue
			}
			if m := rpcRe.FindStringSubmatch(tl); m != nil {
				svc[s][m[1]] = m[2]
			}
			if m := msgRe.FindStringSubmatch(tl); m != nil && depth == 0 {
				cur = m[1]
				msgs[cur] = map[string]bool{}
			}
			if cur != "" && depth == 1 {
				if m := fieldRe.FindStringSubmatch(line); m != nil && !strings.HasPrefix(tl, "option") && !strings.HasPrefix(tl, "message") {
					msgs[cur][m[1]] = true
				}
			}
			depth += strings.Count(line, "{") - strings.Count(line, "}")
			if depth == 0 {
				cur = ""
			}
		}
	}
	if len(svc["Query"]) == 0 || len(svc["Tx"]) == 0 {
		return nil, nil, fmt.Errorf("could not read the service definitions from the .proto files")
	}
	return svc, msgs, nil
}

// kebabCase: "ListVestingQueue" -> "list-vesting-queue".
func kebabCase(s string) string {
	var b strings.Builder
	for i, r := range s {
		if r >= 'A' && r <= 'Z' {
			if i > 0 {
				b.WriteByte('-')
			}
			b.WriteRune(r - 'A' + 'a')
		} else {
			b.WriteRune(r)
		}
	}
	return b.String()
}

// rootCmdEnhanced checks cmd/fundraisingd/cmd/root.go and cmd/fundraisingd/main.go at the syntax level.
func (V *Verifier) rootCmdEnhanced() (bool, string) {
	parse := func(rel string) (*ast.File, error) {
		b, err := V.readFile(filepath.Join(V.repo, rel))
		if err != nil {
			return nil, err
		}
		return parser.ParseFile(token.NewFileSet(), rel, b, 0)
	}
	f, err := parse("cmd/fundraisingd/cmd/root.go")
	if err != nil {
		return false, err.Error()
	}
	autocliName := ""
	for _, im := range f.Imports {
		if strings.Trim(im.Path.Value, "\"") == "cosmossdk.io/client/v2/autocli" {
			autocliName = "autocli"
			if im.Name != nil {
				autocliName = im.Name.Name
			}
		}
	}
	if autocliName == "" {
		return false, "root.go does not import cosmossdk.io/client/v2/autocli"
	}
	var fn *ast.FuncDecl
	for _, d := range f.Decls {
		if fd, ok := d.(*ast.FuncDecl); ok && fd.Name.Name == "NewRootCmd" && fd.Recv == nil {
			fn = fd
		}
	}
	if fn == nil || fn.Body == nil {
		return false, "cmd.NewRootCmd not found"
	}
	// the options variable: declared with type autocli.AppOptions
	optVar := ""
	ast.Inspect(fn.Body, func(n ast.Node) bool {
		if vs, ok := n.(*ast.ValueSpec); ok {
			if se, ok := vs.Type.(*ast.SelectorExpr); ok {
				if id, ok := se.X.(*ast.Ident); ok && id.Name == autocliName && se.Sel.Name == "AppOptions" && len(vs.Names) == 1 {
					optVar = vs.Names[0].Name
				}
			}
		}
		return true
	})
	if optVar == "" {
		return false, "NewRootCmd declares no autocli.AppOptions variable"
	}
	isAddrOfOpt := func(e ast.Expr) bool {
		u, ok := e.(*ast.UnaryExpr)
		if !ok || u.Op != token.AND {
			return false
		}
		id, ok := u.X.(*ast.Ident)
		return ok && id.Name == optVar
	}
	injected, enhancedCmd, returned := false, "", ""
	for _, st := range fn.Body.List { // top-level statements only: nothing conditional
		switch t := st.(type) {
		case *ast.IfStmt:
			as, ok := t.Init.(*ast.AssignStmt)
			if !ok || len(as.Rhs) != 1 {
				continue
			}
			call, ok := as.Rhs[0].(*ast.CallExpr)
			if !ok {
				continue
			}
			sel, ok := call.Fun.(*ast.SelectorExpr)
			if !ok {
				continue
			}
			// the guarded body must panic
			panics := false
			for _, b := range t.Body.List {
				if es, ok := b.(*ast.ExprStmt); ok {
					if c, ok := es.X.(*ast.CallExpr); ok {
						if id, ok := c.Fun.(*ast.Ident); ok && id.Name == "panic" {
							panics = true
						}
					}
				}
			}
			cond, isBin := t.Cond.(*ast.BinaryExpr)
			if !panics || !isBin || cond.Op != token.NEQ {
				continue
			}
			if id, ok := sel.X.(*ast.Ident); ok && id.Name == "depinject" && sel.Sel.Name == "Inject" {
				for _, a := range call.Args[1:] {
					if isAddrOfOpt(a) {
						injected = true
					}
				}
			}
			if id, ok := sel.X.(*ast.Ident); ok && id.Name == optVar && sel.Sel.Name == "EnhanceRootCommand" && len(call.Args) == 1 {
				if a, ok := call.Args[0].(*ast.Ident); ok {
					enhancedCmd = a.Name
				}
			}
		case *ast.ReturnStmt:
			if len(t.Results) == 1 {
				if id, ok := t.Results[0].(*ast.Ident); ok {
					returned = id.Name
				}
			}
		}
	}
	// the module options must come from the modules: nothing in NewRootCmd writes autoCliOpts.ModuleOptions (an entry there
	// replaces the module's own AutoCLIOptions wholesale)
	overridden := ""
	ast.Inspect(fn.Body, func(n ast.Node) bool {
		as, ok := n.(*ast.AssignStmt)
		if !ok {
			return true
		}
		for _, lhs := range as.Lhs {
			ast.Inspect(lhs, func(m ast.Node) bool {
				if se, ok := m.(*ast.SelectorExpr); ok && se.Sel.Name == "ModuleOptions" {
					if id, ok := se.X.(*ast.Ident); ok && id.Name == optVar {
						overridden = "NewRootCmd assigns " + optVar + ".ModuleOptions: the module's own AutoCLIOptions are replaced"
					}
				}
				return true
			})
		}
		return true
	})
	if overridden != "" {
		return false, overridden
	}
	nret := 0
	ast.Inspect(fn.Body, func(n ast.Node) bool {
		if _, isLit := n.(*ast.FuncLit); isLit {
			return false
		}
		if _, ok := n.(*ast.ReturnStmt); ok {
			nret++
		}
		return true
	})
	switch {
	case !injected:
		return false, "the autocli.AppOptions variable is not an output of depinject.Inject (error => panic) in NewRootCmd"
	case enhancedCmd == "":
		return false, "NewRootCmd does not call " + optVar + ".EnhanceRootCommand(cmd) unconditionally with its error ending in a panic"
	case returned != enhancedCmd || nret != 1:
		return false, fmt.Sprintf("NewRootCmd enhances %s but returns %s (%d return statements)", enhancedCmd, returned, nret)
	}
	// main: rootCmd := cmd.NewRootCmd(); svrcmd.Execute(rootCmd, ...)
	m, err := parse("cmd/fundraisingd/main.go")
	if err != nil {
		return false, err.Error()
	}
	rootVar, executed := "", false
	ast.Inspect(m, func(n ast.Node) bool {
		switch t := n.(type) {
		case *ast.AssignStmt:
			if len(t.Lhs) == 1 && len(t.Rhs) == 1 {
				if c, ok := t.Rhs[0].(*ast.CallExpr); ok {
					if se, ok := c.Fun.(*ast.SelectorExpr); ok && se.Sel.Name == "NewRootCmd" {
						if id, ok := t.Lhs[0].(*ast.Ident); ok {
							rootVar = id.Name
						}
					}
				}
			}
		case *ast.CallExpr:
			if se, ok := t.Fun.(*ast.SelectorExpr); ok && se.Sel.Name == "Execute" && len(t.Args) >= 1 {
				if id, ok := t.Args[0].(*ast.Ident); ok && rootVar != "" && id.Name == rootVar {
					executed = true
				}
			}
		}
		return true
	})
	if !executed {
		return false, "main does not execute the command returned by cmd.NewRootCmd"
	}
	return true, fmt.Sprintf("NewRootCmd: %s injected, %s.EnhanceRootCommand(%s), return %s; main executes it", optVar, optVar, enhancedCmd, returned)
}
