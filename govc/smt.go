package main

// SMT-LIB generation and the solver portfolio.

import (
	"bytes"
	"context"
	"fmt"
	"os"
	"os/exec"
	"path/filepath"
	"regexp"
	"sort"
	"strings"
	"sync"
	"sync/atomic"
	"time"
)

type preludeFun struct {
	SMT  string
	Args []string
	Ret  string
}

// preludeFuns: functions of the prelude callable from contracts (name -> SMT name, sorts).
var preludeFuns = map[string]preludeFun{
	"tdiv":       {"tdiv", []string{"Int", "Int"}, "Int"},
	"trem":       {"trem", []string{"Int", "Int"}, "Int"},
	"floorDiv":   {"div", []string{"Int", "Int"}, "Int"},
	"ceilDiv":    {"ceilDiv", []string{"Int", "Int"}, "Int"},
	"decMul":     {"decMul", []string{"Int", "Int"}, "Int"},
	"decMulTr":   {"decMulTrunc", []string{"Int", "Int"}, "Int"},
	"decQuo":     {"decQuo", []string{"Int", "Int"}, "Int"},
	"decQuoTr":   {"decQuoTrunc", []string{"Int", "Int"}, "Int"},
	"decCeil":    {"decCeil", []string{"Int"}, "Int"},
	"decTrunc":   {"decTruncInt", []string{"Int"}, "Int"},
	"chopRound":  {"chopRound", []string{"Int"}, "Int"},
	"validAddr":  {"validAddr", []string{"Str"}, "Bool"},
	"addrOf":     {"addrOf", []string{"Str"}, "Addr"},
	"strOf":      {"strOf", []string{"Addr"}, "Str"},
	"sellEsc":    {"sellEsc", []string{"Int"}, "Addr"},
	"payEsc":     {"payEsc", []string{"Int"}, "Addr"},
	"vestEsc":    {"vestEsc", []string{"Int"}, "Addr"},
	"isEscrow":   {"isEscrow", []string{"Addr"}, "Bool"},
	"validDenom": {"validDenom", []string{"Str"}, "Bool"},
	"decStr":     {"DecString", []string{"Int"}, "Str"},
	"listN":      {"listN", []string{"(Array Addr Bool)"}, "Int"},
	"listKey":    {"listKey", []string{"(Array Addr Bool)", "Int"}, "Addr"},
	"listPos":    {"listPos", []string{"(Array Addr Bool)", "Addr"}, "Int"},
	"ilistPos":   {"ilistPos", []string{"(Array Int Bool)", "Int"}, "Int"},
	"ilistN":     {"ilistN", []string{"(Array Int Bool)"}, "Int"},
	"ilistKey":   {"ilistKey", []string{"(Array Int Bool)", "Int"}, "Int"},
	"abs":        {"absI", []string{"Int"}, "Int"},
	"addDays":    {"addDays", []string{"Int", "Int"}, "Int"},
	"sprint2":    {"sprint2", []string{"Int", "Str"}, "Str"},
	"dense1":     {"dense1", []string{"(Array Int Bool)", "Int"}, "Bool"},
	"dense0":     {"dense0", []string{"(Array Int Bool)", "Int"}, "Bool"},
	"sprintI":    {"sprintI", []string{"Int"}, "Str"},
	"sprintII":   {"sprintII", []string{"Int", "Int"}, "Str"},
	"boolName":   {"boolName", []string{"Bool"}, "Str"},
}

const prelude = `(declare-sort Str 0)
(declare-sort Addr 0)
(define-fun S () Int 1000000000000000000)
(declare-const emptyStr Str)
(declare-const nilAddr Addr)
(declare-const TIME_ZERO Int)
(declare-const ERR_NOTFOUND Int)
(define-fun noCoins () (Array Str Int) ((as const (Array Str Int)) 0))
(define-fun min2 ((a Int) (b Int)) Int (ite (<= a b) a b))
(define-fun max2 ((a Int) (b Int)) Int (ite (>= a b) a b))
(define-fun absI ((a Int)) Int (ite (>= a 0) a (- a)))
; Go's truncated division and remainder (divisor non-zero is an obligation at the call site)
(define-fun tdiv ((a Int) (b Int)) Int (ite (>= a 0) (ite (> b 0) (div a b) (- (div a (- b)))) (ite (> b 0) (- (div (- a) b)) (div (- a) (- b)))))
(define-fun trem ((a Int) (b Int)) Int (- a (* b (tdiv a b))))
(define-fun ceilDiv ((a Int) (b Int)) Int (ite (= (mod a b) 0) (div a b) (+ (div a b) 1)))
; cosmossdk.io/math LegacyDec on raw 10^18-scaled integers
(define-fun chopTrunc ((x Int)) Int (tdiv x S))
(define-fun chopRoundP ((x Int)) Int (let ((q (div x S)) (r (mod x S))) (ite (< (* 2 r) S) q (ite (> (* 2 r) S) (+ q 1) (ite (= (mod q 2) 0) q (+ q 1))))))
(define-fun chopRound ((x Int)) Int (ite (>= x 0) (chopRoundP x) (- (chopRoundP (- x)))))
(define-fun decMul ((a Int) (b Int)) Int (chopRound (* a b)))
(define-fun decMulTrunc ((a Int) (b Int)) Int (chopTrunc (* a b)))
(define-fun decQuo ((a Int) (b Int)) Int (chopRound (tdiv (* a S S) b)))
(define-fun decQuoTrunc ((a Int) (b Int)) Int (chopTrunc (tdiv (* a S S) b)))
(define-fun decCeil ((x Int)) Int (ite (> (trem x S) 0) (* S (+ (tdiv x S) 1)) (* S (tdiv x S))))
(define-fun decTruncInt ((x Int)) Int (tdiv x S))
(define-fun addDays ((t Int) (d Int)) Int (+ t (* d 86400000000000)))
; strings and addresses
(declare-fun strcat (Str Str) Str)
(declare-fun addrOf (Str) Addr)
(declare-fun strOf (Addr) Str)
(declare-sort Ref 0)
(declare-const nilref Ref)
(declare-fun reflistN (Ref) Int)
(declare-fun reflist (Ref) (Array Int Ref))
(declare-fun validAddr (Str) Bool)
(declare-fun validDenom (Str) Bool)
; NOT assumed: (validAddr s) => (strOf (addrOf s)) = s.  Bech32 text is not canonical: the all-upper-case spelling of an
; address decodes to the same bytes, and AccAddress.String() prints the lower-case one (spec predicate canonAddr).
(assert (forall ((a Addr)) (! (and (validAddr (strOf a)) (= (addrOf (strOf a)) a)) :pattern ((strOf a)))))
(declare-fun DecString (Int) Str)
(declare-fun DecParse (Str) Int)
(assert (forall ((a Int)) (! (= (DecParse (DecString a)) a) :pattern ((DecString a)))))
(declare-fun sprint2 (Int Str) Str)
(declare-fun sprint2a (Str) Int)
(declare-fun sprint2b (Str) Str)
(assert (forall ((a Int) (b Str)) (! (and (= (sprint2a (sprint2 a b)) a) (= (sprint2b (sprint2 a b)) b)) :pattern ((sprint2 a b)))))
(declare-fun sprintII (Int Int) Str)
(declare-fun sprintIIa (Str) Int)
(declare-fun sprintIIb (Str) Int)
(assert (forall ((a Int) (b Int)) (! (and (= (sprintIIa (sprintII a b)) a) (= (sprintIIb (sprintII a b)) b)) :pattern ((sprintII a b)))))
(declare-fun boolName (Bool) Str)
(assert (not (= (boolName true) (boolName false))))
(declare-fun sprintI (Int) Str)
(declare-fun sprintIinv (Str) Int)
(assert (forall ((a Int)) (! (= (sprintIinv (sprintI a)) a) :pattern ((sprintI a)))))
; escrow address derivation: injective in (role, id) and disjoint from ordinary accounts (assumption A4)
(declare-fun sellEsc (Int) Addr)
(declare-fun payEsc (Int) Addr)
(declare-fun vestEsc (Int) Addr)
(declare-fun isEscrow (Addr) Bool)
(declare-fun escId (Addr) Int)
(declare-fun escRole (Addr) Int)
(assert (forall ((i Int)) (! (and (isEscrow (sellEsc i)) (= (escId (sellEsc i)) i) (= (escRole (sellEsc i)) 1)) :pattern ((sellEsc i)))))
(assert (forall ((i Int)) (! (and (isEscrow (payEsc i)) (= (escId (payEsc i)) i) (= (escRole (payEsc i)) 2)) :pattern ((payEsc i)))))
(assert (forall ((i Int)) (! (and (isEscrow (vestEsc i)) (= (escId (vestEsc i)) i) (= (escRole (vestEsc i)) 3)) :pattern ((vestEsc i)))))
; sorted listing of a set of addresses / integers (what collections.Walk enumerates): schema T-schemas
(declare-fun listN ((Array Addr Bool)) Int)
(declare-fun listKey ((Array Addr Bool) Int) Addr)
(declare-fun listPos ((Array Addr Bool) Addr) Int)
(assert (forall ((d (Array Addr Bool))) (! (>= (listN d) 0) :pattern ((listN d)))))
(assert (forall ((d (Array Addr Bool)) (j Int)) (! (=> (and (<= 0 j) (< j (listN d))) (and (select d (listKey d j)) (= (listPos d (listKey d j)) j))) :pattern ((listKey d j)))))
(assert (forall ((d (Array Addr Bool)) (k Addr)) (! (=> (select d k) (and (<= 0 (listPos d k)) (< (listPos d k) (listN d)) (= (listKey d (listPos d k)) k))) :pattern ((listPos d k)))))
(declare-fun ilistN ((Array Int Bool)) Int)
(declare-fun ilistKey ((Array Int Bool) Int) Int)
(declare-fun ilistPos ((Array Int Bool) Int) Int)
(assert (forall ((d (Array Int Bool))) (! (>= (ilistN d) 0) :pattern ((ilistN d)))))
(assert (forall ((d (Array Int Bool)) (j Int)) (! (=> (and (<= 0 j) (< j (ilistN d))) (and (select d (ilistKey d j)) (= (ilistPos d (ilistKey d j)) j))) :pattern ((ilistKey d j)))))
(assert (forall ((d (Array Int Bool)) (k Int)) (! (=> (select d k) (and (<= 0 (ilistPos d k)) (< (ilistPos d k) (ilistN d)) (= (ilistKey d (ilistPos d k)) k))) :pattern ((ilistPos d k)))))
(assert (forall ((d (Array Int Bool)) (i Int) (j Int)) (! (=> (and (<= 0 i) (< i j) (< j (ilistN d))) (< (ilistKey d i) (ilistKey d j))) :pattern ((ilistKey d i) (ilistKey d j)))))
; dense1(d, N): d is exactly the set {1..N}; then the sorted listing is the identity shifted by one (T-schemas)
(declare-fun dense1 ((Array Int Bool) Int) Bool)
(declare-fun dense1sk ((Array Int Bool) Int) Int)
(assert (forall ((d (Array Int Bool)) (n Int)) (! (=> (= (select d (dense1sk d n)) (and (<= 1 (dense1sk d n)) (<= (dense1sk d n) n))) (dense1 d n)) :pattern ((dense1 d n)))))
(assert (forall ((d (Array Int Bool)) (n Int) (i Int)) (! (=> (dense1 d n) (= (select d i) (and (<= 1 i) (<= i n)))) :pattern ((dense1 d n) (select d i)))))
(assert (forall ((d (Array Int Bool)) (n Int)) (! (=> (and (dense1 d n) (>= n 0)) (= (ilistN d) n)) :pattern ((dense1 d n)))))
(assert (forall ((d (Array Int Bool)) (n Int) (j Int)) (! (=> (and (dense1 d n) (<= 0 j) (< j n)) (= (ilistKey d j) (+ j 1))) :pattern ((dense1 d n) (ilistKey d j)))))
; idxOf(a, n, w): the least index below n at which the string array a holds w, -1 if there is none (a definable total
; function: both axioms are its defining properties)
(declare-fun idxOf ((Array Int Str) Int Str) Int)
(assert (forall ((a (Array Int Str)) (n Int) (w Str)) (! (and (<= (- 1) (idxOf a n w)) (or (< (idxOf a n w) n) (= (idxOf a n w) (- 1))) (=> (>= (idxOf a n w) 0) (= (select a (idxOf a n w)) w))) :pattern ((idxOf a n w)))))
(assert (forall ((a (Array Int Str)) (n Int) (w Str) (i Int)) (! (=> (and (<= 0 i) (< i n) (= (select a i) w)) (and (<= 0 (idxOf a n w)) (<= (idxOf a n w) i))) :pattern ((idxOf a n w) (select a i)))))
; dense0(d, N): d is exactly the set {0..N-1}; then the sorted listing is the identity (T-schemas)
(declare-fun dense0 ((Array Int Bool) Int) Bool)
(declare-fun dense0sk ((Array Int Bool) Int) Int)
(assert (forall ((d (Array Int Bool)) (n Int)) (! (=> (= (select d (dense0sk d n)) (and (<= 0 (dense0sk d n)) (< (dense0sk d n) n))) (dense0 d n)) :pattern ((dense0 d n)))))
(assert (forall ((d (Array Int Bool)) (n Int) (i Int)) (! (=> (dense0 d n) (= (select d i) (and (<= 0 i) (< i n)))) :pattern ((dense0 d n) (select d i)))))
(assert (forall ((d (Array Int Bool)) (n Int)) (! (=> (and (dense0 d n) (>= n 0)) (= (ilistN d) n)) :pattern ((dense0 d n)))))
(assert (forall ((d (Array Int Bool)) (n Int) (j Int)) (! (=> (and (dense0 d n) (<= 0 j) (< j n)) (= (ilistKey d j) j)) :pattern ((dense0 d n) (ilistKey d j)))))
`

var symRe = regexp.MustCompile(`\|[^|]*\|`)

// buildQuery assembles the SMT-LIB text of one obligation, pruning declarations to the symbols that occur.
func (V *Verifier) buildQuery(o *Oblig, sums map[string]*SumFn, negate bool, level int) string {
	ground := level >= 10 && level < 20 // level 1x: lemma level x on the ground part of the assumptions
	focusMode := level >= 20            // level 2x: lemma level x, unfoldings and lemma instances only for the sums of the goal
	flat := level >= 40                 // level 4x: as 3x without the nested rounds of pointwise lemmas (goals with stepping-stone lemmas among their hypotheses)
	udiv := level >= 30                 // level 3x: as 2x with quotients by symbolic divisors left uninterpreted (only their sign facts are kept)
	level = level % 10
	var body strings.Builder
	for _, p := range o.PC {
		if o.Vacuity && (strings.Contains(p, "(forall ") || strings.Contains(p, "(exists ")) {
			continue // reachability witnesses are searched on the ground part only (quantifiers make solvers answer unknown)
		}
		if ground && (strings.Contains(p, "(forall ") || strings.Contains(p, "(exists ")) {
			// "ground" variant: quantified assumptions are replaced by their ground conjuncts and (below) by their
			// instances at the goal's skolem constants. Dropping assumptions is sound; it only makes the query easier.
			if pe, err := parseSx(p); err == nil {
				for _, c := range splitConj(pe, 0) {
					cs := c.String()
					if !strings.Contains(cs, "(forall ") && !strings.Contains(cs, "(exists ") {
						body.WriteString("(assert " + cs + ")\n")
					}
				}
			}
			continue
		}
		body.WriteString("(assert " + p + ")\n")
	}
	var skDecls []string
	focusStart := body.Len()
	if negate {
		g := o.Goal
		if e, err := parseSx(g); err == nil {
			g = skolemizeGoal(e, &skDecls).String()
		}
		body.WriteString("(assert (not " + g + "))\n")
		// instances of universally quantified assumptions at the goal's skolem constants: makes the terms ground so that
		// sum unfoldings and lemmas can be generated for them (each instance is implied by the assumption it comes from)
		if len(skDecls) > 0 {
			for _, p := range o.PC {
				if !strings.Contains(p, "(forall ") {
					continue
				}
				pe, err := parseSx(p)
				if err != nil {
					continue
				}
				for _, inst := range instancesAt(pe, skDecls) {
					body.WriteString("(assert " + inst + ")\n")
				}
			}
		}
	}
	text := body.String()
	focus := ""
	if focusMode {
		focus = text[focusStart:]
	}
	// unfold recursive sums one step at the applications that occur in the query; applications introduced by an
	// unfolding are unfolded in a second round only if they belong to another function (nested sums), so that the
	// predecessor chain F(n-1), F(n-2), ... is not followed
	var unfold []string
	seenU := map[string]bool{}
	scan := text
	if focusMode {
		// unfold the sums of the goal and of the quantifier-free assumptions (hint terms of invariants)
		var sb strings.Builder
		sb.WriteString(focus)
		for _, ln := range strings.Split(text[:focusStart], "\n") {
			if !strings.Contains(ln, "(forall ") && !strings.Contains(ln, "(exists ") {
				sb.WriteString(ln + "\n")
			}
		}
		scan = sb.String()
	}
	for round := 0; round < 2; round++ {
		var added []string
		for _, k := range sortedSumKeys(sums) {
			sf := sums[k]
			for _, args := range sexpArgs(scan, sf.Name) {
				if len(args) != len(sf.PSorts)+1 || hasBoundArg(args) {
					continue
				}
				key := sf.Name + " " + strings.Join(args, " ")
				if seenU[key] {
					continue
				}
				seenU[key] = true
				n := args[len(args)-1]
				if lo0, _ := sf.inst(args[:len(args)-1], "0"); lo0 == n {
					// empty range: the sum is zero and there is no predecessor to unfold to
					unfold = append(unfold, fmt.Sprintf("(assert (= %s 0))", sApp(sf.Name, args...)))
					continue
				}
				pred := "(- " + n + " 1)"
				if strings.HasPrefix(n, "(+ ") && strings.HasSuffix(n, " 1)") {
					if e, err := parseSx(n); err == nil && len(e.kids) == 3 {
						pred = e.kids[1].String() // (x+1)-1 = x: keeps the index terms of the predecessor canonical
					}
				}
				lo, bodyAt := sf.inst(args[:len(args)-1], pred)
				app := func(last string) string {
					return sApp(sf.Name, append(append([]string{}, args[:len(args)-1]...), last)...)
				}
				seenU[sf.Name+" "+strings.Join(append(append([]string{}, args[:len(args)-1]...), pred), " ")] = true
				unfold = append(unfold, fmt.Sprintf("(assert (=> (<= %s %s) (= %s 0)))", n, lo, app(n)))
				unfold = append(unfold, fmt.Sprintf("(assert (=> (> %s %s) (= %s (+ %s %s))))", n, lo, app(n), app(pred), bodyAt))
				added = append(added, bodyAt)
			}
		}
		if len(added) == 0 {
			break
		}
		scan = strings.Join(added, "\n")
	}
	unfold = append(unfold, sumRelationLemmas(text+strings.Join(unfold, "\n"), sums, level, focus, flat)...)
	if level >= 2 {
		unfold = append(unfold, divSignInstances(text+strings.Join(unfold, "\n"))...)
	}
	if level >= 3 {
		unfold = append(unfold, distributivityInstances(text+strings.Join(unfold, "\n"))...)
	}
	full := text + strings.Join(unfold, "\n")
	used := map[string]bool{}
	for _, m := range symRe.FindAllString(full, -1) {
		used[m] = true
	}
	var b strings.Builder
	if o.Vacuity {
		for _, l := range strings.Split(prelude, "\n") {
			if !strings.HasPrefix(l, "(assert (forall") {
				b.WriteString(l + "\n")
			}
		}
	} else {
		b.WriteString(prelude)
	}
	for _, n := range V.strOrder {
		b.WriteString("(declare-const " + n + " Str)\n")
	}
	if len(V.strOrder) > 0 {
		b.WriteString("(assert (distinct emptyStr " + strings.Join(V.strOrder, " ") + "))\n")
	}
	zs := map[string]bool{}
	for m := range used {
		if strings.HasPrefix(m, "|zarr:") && !zs[m] {
			zs[m] = true
			parts := strings.SplitN(strings.Trim(m, "|"), ":", 3)
			b.WriteString("(declare-const " + m + " " + strings.ReplaceAll(parts[1], "_", " ") + ")\n")
		}
	}
	for _, d := range o.Decls {
		m := symRe.FindString(d)
		if m == "" || used[m] {
			b.WriteString(d + "\n")
		}
	}
	for _, d := range skDecls {
		b.WriteString(d + "\n")
	}
	if udiv {
		// weaker hypotheses (an uninterpreted quotient satisfies fewer facts than div): sound, and keeps the query linear
		b.WriteString("(declare-fun udivf (Int Int) Int)\n")
		for _, u := range unfold {
			b.WriteString(strings.ReplaceAll(u, "(div ", "(udivf ") + "\n")
		}
		b.WriteString(strings.ReplaceAll(text, "(div ", "(udivf "))
		b.WriteString("(check-sat)\n")
		return b.String()
	}
	for _, u := range unfold {
		b.WriteString(u + "\n")
	}
	b.WriteString(text)
	b.WriteString("(check-sat)\n")
	return b.String()
}

// sexpArgs returns the argument strings of every application "(fn a1 a2 ...)" found in text.
func sexpArgs(text, fn string) [][]string {
	var out [][]string
	key := "(" + fn + " "
	for pos := 0; ; {
		i := strings.Index(text[pos:], key)
		if i < 0 {
			return out
		}
		p := pos + i + len(key)
		var args []string
		for p < len(text) && text[p] != ')' {
			for text[p] == ' ' {
				p++
			}
			st, depth := p, 0
			for p < len(text) {
				c := text[p]
				if c == '(' {
					depth++
				} else if c == ')' {
					if depth == 0 {
						break
					}
					depth--
				} else if c == ' ' && depth == 0 {
					break
				} else if c == '|' {
					p++
					for text[p] != '|' {
						p++
					}
				}
				p++
			}
			if p > st {
				args = append(args, text[st:p])
			}
		}
		out = append(out, args)
		pos = pos + i + len(key)
	}
}

// solverSem bounds the number of solver processes running at once (one per core, two cores left to the generator):
// without it the racing configurations of several obligations starve each other and time limits are hit for no reason.
var solverSem = make(chan struct{}, 14)

// definiteFailures counts the obligations of this run that no configuration discharged.
var definiteFailures int32

type solverCfg struct {
	Name  string
	Cmd   []string
	Pre   string
	Level int // 0: sum unfoldings and same-function lemmas; 1: additionally cross-function congruence instances; 2: as 1 on the ground part of the assumptions
}

func (V *Verifier) solverConfigs() []solverCfg {
	t := V.timeout
	z := func(name string, level int, pre string) solverCfg {
		return solverCfg{name, []string{"z3-new", fmt.Sprintf("-T:%d", t), fmt.Sprintf("smt.random_seed=%d", V.seed%1000)}, pre, level}
	}
	c := func(name string, level int) solverCfg {
		return solverCfg{name, []string{"cvc5", "-q", fmt.Sprintf("--tlimit=%d", t*1000), fmt.Sprintf("--seed=%d", V.seed%1000)}, "(set-logic ALL)\n", level}
	}
	return []solverCfg{
		// stage A (levels 0): unfoldings only
		z("z3-new/ematch", 0, "(set-option :smt.mbqi false)\n(set-option :smt.auto_config false)\n"),
		z("z3-new", 0, ""),
		c("cvc5", 0),
		// stage B
		{"z3-4.8.12", []string{"z3", fmt.Sprintf("-T:%d", t)}, "", 0},
		z("z3-new+upd", 1, ""),
		c("cvc5+upd", 1),
		z("z3-new+mono", 2, ""),
		z("z3-new+lemmas", 3, ""),
		c("cvc5+lemmas", 3),
		z("z3-new/goal+mono", 22, ""),
		c("cvc5/goal+mono", 22),
		z("z3-new/goal+lemmas", 23, ""),
		z("z3-new/goal+lemmas/flat", 43, ""),
		{"z3-4.8.12/goal+lemmas/flat", []string{"z3", fmt.Sprintf("-T:%d", t)}, "", 43},
		z("z3-new/goal+lemmas/udiv", 33, ""),
		{"z3-4.8.12/goal+lemmas/udiv", []string{"z3", fmt.Sprintf("-T:%d", t)}, "", 33},
		c("cvc5/goal+lemmas", 23),
		z("z3-new/ground", 10, ""),
		z("z3-new/ground+mono", 12, ""),
		z("z3-new/ground+lemmas", 13, ""),
		c("cvc5/ground+lemmas", 13),
	}
}

// discharge races the solver configurations on one obligation.
func (V *Verifier) discharge(o *Oblig, sums map[string]*SumFn, dir string) {
	if o.Goal == "true" && !o.Vacuity {
		o.Status, o.Backend = "unsat", "trivial"
		return
	}
	qs := map[int]string{}
	query := func(level int) string {
		if q, ok := qs[level]; ok {
			return q
		}
		qs[level] = V.buildQuery(o, sums, !o.Vacuity, level)
		return qs[level]
	}
	q := query(0)
	o.Bytes = len(q)
	if len(q) > 4<<20 {
		o.Status, o.Detail = "error", "query larger than 4 MB"
		return
	}
	base := filepath.Join(dir, sanitize(o.Name))
	all := V.solverConfigs()
	hasQuant := strings.Contains(strings.Join(o.PC, " "), "(forall ")
	var stageA, stageB, stageC []solverCfg
	for i, c := range all {
		if o.Vacuity && c.Level != 0 {
			continue
		}
		if c.Level%10 >= 1 && len(sums) == 0 && c.Level < 10 {
			continue // no sums: the lemma levels add nothing
		}
		if c.Level >= 10 && c.Level < 20 && !hasQuant {
			continue
		}
		if c.Level >= 10 && len(sums) == 0 && c.Level != 10 {
			continue
		}
		if c.Level >= 20 && len(sums) == 0 {
			continue // goal-directed levels differ from level 0 only in the treatment of sums
		}
		switch {
		case i < 3:
			stageA = append(stageA, c)
		case c.Level >= 20 || c.Name == "z3-4.8.12":
			stageB = append(stageB, c)
		default:
			stageC = append(stageC, c)
		}
	}
	type res struct {
		cfg string
		out string
		dur time.Duration
	}
	t0 := time.Now()
	want := "unsat"
	if o.Vacuity {
		want = "sat"
	}
	var details []string
	got := ""
	runStage := func(cfgs []solverCfg, quick bool) {
		if len(cfgs) == 0 || got != "" {
			return
		}
		ctx, cancel := context.WithCancel(context.Background())
		defer cancel()
		ch := make(chan res, len(cfgs))
		texts := make([]string, len(cfgs))
		for i, c := range cfgs {
			texts[i] = c.Pre + query(c.Level) // built sequentially (memoised per level)
		}
		for i, c := range cfgs {
			go func(i int, c solverCfg) {
				f := fmt.Sprintf("%s.%s.%d.smt2", base, sanitize(c.Name), i)
				os.WriteFile(f, []byte(texts[i]), 0o644)
				defer os.Remove(f)
				args := append([]string{}, c.Cmd[1:]...)
				if quick {
					// first stage: a short time limit; whatever is not decided here goes to the full portfolio
					for k, a := range args {
						if strings.HasPrefix(a, "-T:") {
							args[k] = "-T:2"
						}
						if strings.HasPrefix(a, "--tlimit=") {
							args[k] = "--tlimit=2000"
						}
					}
				}
				select {
				case solverSem <- struct{}{}:
				case <-ctx.Done():
					ch <- res{c.Name, "cancelled", 0}
					return
				}
				cmd := exec.CommandContext(ctx, c.Cmd[0], append(args, f)...)
				var out bytes.Buffer
				cmd.Stdout, cmd.Stderr = &out, &out
				st := time.Now()
				cmd.Run()
				<-solverSem
				ch <- res{c.Name, out.String(), time.Since(st)}
			}(i, c)
		}
		for range cfgs {
			r := <-ch
			if got != "" {
				continue
			}
			first := "error"
			if strings.Contains(r.out, "(error") {
				// a solver that rejected part of the query has not decided the query we meant: never accept its verdict
				r.out = "error: " + strings.SplitN(r.out[strings.Index(r.out, "(error"):], "\n", 2)[0]
			}
			for _, ln := range strings.Split(r.out, "\n") {
				ln = strings.TrimSpace(ln)
				if ln == "sat" || ln == "unsat" || ln == "unknown" || ln == "timeout" {
					first = ln
					break
				}
				if strings.Contains(ln, "interrupted by timeout") {
					first = "timeout"
					break
				}
				if strings.HasPrefix(ln, "error:") && first == "error" {
					first = ln
				}
			}
			if first == "error" && r.out == "" {
				first = "killed"
			}
			details = append(details, fmt.Sprintf("%s:%s(%.2fs)", r.cfg, first, r.dur.Seconds()))
			if first == want {
				got, o.Backend = want, r.cfg
				cancel()
			} else if o.Vacuity && first == "unsat" {
				got, o.Backend = "unsat", r.cfg
				cancel()
			} else if !o.Vacuity && first == "sat" && o.Status == "" && !strings.Contains(query(0), "(forall ") {
				o.Status, o.Backend = "sat", r.cfg // a model of a quantifier-free query: a real counterexample candidate
			}
		}
	}
	runStage(stageA, len(stageB)+len(stageC) > 0)
	runStage(stageB, false)
	if isKnownOpen(o.Name) && !o.Vacuity {
		details = append(details, "stageC:skipped(open-known-finding)")
	} else if atomic.LoadInt32(&definiteFailures) >= 3 && !o.Vacuity {
		// the run already has three obligations that every configuration failed to discharge: its verdict is a
		// violation whatever the remaining ones say; the slow last stage is skipped for them to keep mutant runs short
		// (never happens on a tree where everything discharges)
		details = append(details, "stageC:skipped(after-3-failures)")
	} else {
		runStage(stageC, false)
	}
	o.Time = time.Since(t0).Seconds()
	sort.Strings(details)
	o.Detail = strings.Join(details, " ")
	if got == "" && !o.Vacuity && !isKnownOpen(o.Name) {
		atomic.AddInt32(&definiteFailures, 1)
	}
	if got != "" {
		o.Status = got
	} else if o.Status == "" {
		if strings.Contains(o.Detail, "timeout") {
			o.Status = "timeout"
		} else {
			o.Status = "unknown"
		}
	}
	if V.keepQueries != "" || !o.ok() {
		kd := V.keepQueries
		if kd == "" {
			kd = dir
		}
		os.WriteFile(filepath.Join(kd, sanitize(o.Name)+".smt2"), []byte(q), 0o644)
		if V.keepQueries != "" && hasQuant {
			os.WriteFile(filepath.Join(kd, sanitize(o.Name)+".ground.smt2"), []byte(query(13)), 0o644)
		}
		if V.keepQueries != "" && (!o.ok() || os.Getenv("GOVC_KEEP_ALL") != "") {
			os.WriteFile(filepath.Join(kd, sanitize(o.Name)+".lemmas.smt2"), []byte(query(3)), 0o644)
			os.WriteFile(filepath.Join(kd, sanitize(o.Name)+".goal.smt2"), []byte(query(23)), 0o644)
			os.WriteFile(filepath.Join(kd, sanitize(o.Name)+".goalmono.smt2"), []byte(query(22)), 0o644)
			os.WriteFile(filepath.Join(kd, sanitize(o.Name)+".udiv.smt2"), []byte(query(33)), 0o644)
			os.WriteFile(filepath.Join(kd, sanitize(o.Name)+".flat.smt2"), []byte(query(43)), 0o644)
		}
	}
}

func (o *Oblig) ok() bool {
	if o.Vacuity {
		return o.Status == "sat"
	}
	return o.Status == "unsat"
}

func sanitize(s string) string {
	return strings.Map(func(r rune) rune {
		if r >= 'a' && r <= 'z' || r >= 'A' && r <= 'Z' || r >= '0' && r <= '9' || r == '_' || r == '-' || r == '.' {
			return r
		}
		return '_'
	}, s)
}

// inst instantiates lo and body of a sum function for concrete parameters and summation index.
func (sf *SumFn) inst(params []string, v string) (lo, body string) {
	lo, body = sf.Lo, sf.Body
	for i := len(params) - 1; i >= 0; i-- {
		p := fmt.Sprintf("p%d?", i)
		lo = strings.ReplaceAll(lo, p, params[i])
		body = strings.ReplaceAll(body, p, params[i])
	}
	return lo, replaceToken(body, "sumvar", v)
}

// hasBoundArg: the application occurs under a quantifier (an argument mentions a bound variable name x_N).
func hasBoundArg(args []string) bool {
	for _, a := range args {
		for _, tok := range strings.FieldsFunc(a, func(r rune) bool { return r == '(' || r == ')' || r == ' ' }) {
			if isBoundName(tok) {
				return true
			}
		}
	}
	return false
}

// sumRelationLemmas instantiates two facts about finite sums (trusted base T-Sigma, ordinary mathematics) for every
// pair of ground applications F(a, n1), F(b, n2) of the same sum function occurring in the query, at n in {n1, n2}:
//
//	CONG(n):  (forall i in [lo,n): body(a,i) = body(b,i))  =>  F(a,n) = F(b,n)
//	UPD(n,k): lo <= k < n and (forall i in [lo,n), i != k: body(a,i) = body(b,i))  =>  F(a,n) = F(b,n) + body(a,k) - body(b,k)
//
// for the candidate positions k derived from the indices of array stores occurring in the arguments. The inner
// universal is in an antecedent, so each instance is quantifier-free after skolemisation.
func sumRelationLemmas(text string, sums map[string]*SumFn, level int, focus string, noNestedPW bool) []string {
	// focus != "": single-application lemmas only for applications occurring in the focus text (the goal and the
	// instances made for its skolem constants), pair lemmas only for pairs with at least one member in it
	inFocus := func(fn string, a []string) bool {
		return focus == "" || strings.Contains(focus, sApp(fn, a...))
	}
	var names []string
	for k := range sums {
		names = append(names, k)
	}
	sort.Strings(names)
	var out []string
	var pwLines [][2]string // the two bodies compared by each same-function PW instance (nested sums are compared in turn)
	nsk := 0
	// ground idxOf(...) terms: positions of keys in duplicate-free lists, candidates for single-position updates
	var idxOfTerms []string
	{
		seen := map[string]bool{}
		for _, a := range sexpArgs(text, "idxOf") {
			if len(a) == 3 && !hasBoundArg(a) {
				t := sApp("idxOf", a...)
				if !seen[t] {
					seen[t] = true
					idxOfTerms = append(idxOfTerms, t)
				}
			}
		}
		sort.Strings(idxOfTerms)
		if len(idxOfTerms) > 4 {
			idxOfTerms = idxOfTerms[:4]
		}
	}
	for _, k := range names {
		sf := sums[k]
		var apps [][]string
		seen := map[string]bool{}
		for _, a := range sexpArgs(text, sf.Name) {
			if len(a) == len(sf.PSorts)+1 && !hasBoundArg(a) && !seen[strings.Join(a, " ")] {
				seen[strings.Join(a, " ")] = true
				apps = append(apps, a)
			}
		}
		emitted := map[string]bool{}
		// MONO / NONNEG: with non-negative terms the partial sums are non-negative and monotone in the upper bound
		for i := 0; i < len(apps) && level >= 2; i++ {
			pa, n := apps[i][:len(apps[i])-1], apps[i][len(apps[i])-1]
			lo, _ := sf.inst(pa, "0")
			fi := inFocus(sf.Name, apps[i])
			if !fi {
				// not in the focus: only the pair lemmas with a focus member below
				for j := 0; j < len(apps); j++ {
					if inFocus(sf.Name, apps[j]) {
						fi = true
						break
					}
				}
				if !fi {
					continue
				}
			}
			nsk++
			sk := fmt.Sprintf("sumsk!%d", nsk)
			_, bsk := sf.inst(pa, sk)
			out = append(out, fmt.Sprintf("(declare-const %s Int)", sk))
			out = append(out, fmt.Sprintf("(assert (=> (=> (and (<= %s %s) (< %s %s)) (>= %s 0)) (>= %s 0)))", lo, sk, sk, n, bsk, sApp(sf.Name, apps[i]...)))
			// ALLZERO: a sum of zeros is zero
			nsk++
			skz := fmt.Sprintf("sumsk!%d", nsk)
			_, bz := sf.inst(pa, skz)
			out = append(out, fmt.Sprintf("(declare-const %s Int)", skz))
			out = append(out, fmt.Sprintf("(assert (=> (=> (and (<= %s %s) (< %s %s)) (= %s 0)) (= %s 0)))", lo, skz, skz, n, bz, sApp(sf.Name, apps[i]...)))
			for j := 0; j < len(apps); j++ {
				if i == j || strings.Join(pa, " ") != strings.Join(apps[j][:len(apps[j])-1], " ") {
					continue
				}
				if !inFocus(sf.Name, apps[i]) && !inFocus(sf.Name, apps[j]) {
					continue
				}
				if strings.HasPrefix(n, "(+ ") || strings.HasPrefix(n, "(- ") || strings.HasPrefix(n, "(* ") || strings.HasPrefix(n, "(ite ") {
					continue // only towards a whole-range bound (a slice length, not an index expression): keeps the instances few
				}
				m := apps[j][len(apps[j])-1]
				nsk++
				sk2 := fmt.Sprintf("sumsk!%d", nsk)
				_, b2 := sf.inst(pa, sk2)
				out = append(out, fmt.Sprintf("(declare-const %s Int)", sk2))
				out = append(out, fmt.Sprintf("(assert (=> (and (<= %s %s) (=> (and (<= %s %s) (< %s %s)) (>= %s 0))) (<= %s %s)))", m, n, lo, sk2, sk2, n, b2, sApp(sf.Name, apps[j]...), sApp(sf.Name, apps[i]...)))
				// TAILZERO: if every term on [m,n) is zero the two partial sums are equal
				nsk++
				sk3 := fmt.Sprintf("sumsk!%d", nsk)
				_, b3 := sf.inst(pa, sk3)
				out = append(out, fmt.Sprintf("(declare-const %s Int)", sk3))
				out = append(out, fmt.Sprintf("(assert (=> (and (<= %s %s) (<= %s %s) (=> (and (<= %s %s) (< %s %s)) (= %s 0))) (= %s %s)))", lo, m, m, n, m, sk3, sk3, n, b3, sApp(sf.Name, apps[j]...), sApp(sf.Name, apps[i]...)))
			}
		}
		for i := 0; i < len(apps) && level >= 1; i++ {
			for j := i + 1; j < len(apps); j++ {
				pa, pb := apps[i][:len(apps[i])-1], apps[j][:len(apps[j])-1]
				if strings.Join(pa, " ") == strings.Join(pb, " ") {
					continue // same parameters: related by unfolding and monotonicity only
				}
				if !inFocus(sf.Name, apps[i]) && !inFocus(sf.Name, apps[j]) {
					continue
				}
				loA, _ := sf.inst(pa, "0")
				loB, _ := sf.inst(pb, "0")
				if loA != loB {
					continue
				}
				cands := map[string]bool{}
				for _, arg := range append(append([]string{}, pa...), pb...) {
					for _, st := range sexpArgs(arg, "store") {
						if len(st) == 3 && isIntTerm(st[1], text) {
							cands[st[1]] = true
						}
					}
				}
				for _, io := range idxOfTerms {
					// the position of a key in a list is a candidate only for sums that range over that list
					if la := sexpArgs(io, "idxOf"); len(la) > 0 && (la[0][1] == apps[i][len(apps[i])-1] || la[0][1] == apps[j][len(apps[j])-1]) {
						cands[io] = true
					}
				}
				var cs []string
				for c := range cands {
					cs = append(cs, c)
				}
				sort.Strings(cs)
				for _, n := range []string{apps[i][len(apps[i])-1], apps[j][len(apps[j])-1]} {
					key := strings.Join(pa, " ") + "|" + strings.Join(pb, " ") + "|" + n
					if emitted[key] {
						continue
					}
					emitted[key] = true
					FA := sApp(sf.Name, append(append([]string{}, pa...), n)...)
					FB := sApp(sf.Name, append(append([]string{}, pb...), n)...)
					nsk++
					sk := fmt.Sprintf("sumsk!%d", nsk)
					_, bA := sf.inst(pa, sk)
					_, bB := sf.inst(pb, sk)
					out = append(out, fmt.Sprintf("(declare-const %s Int)", sk))
					out = append(out, fmt.Sprintf("(assert (=> (=> (and (<= %s %s) (< %s %s)) (= %s %s)) (= %s %s)))", loA, sk, sk, n, bA, bB, FA, FB))
					if level >= 3 {
						// PW (same function, different parameters): pointwise <= gives <= of the sums, both directions
						for dir := 0; dir < 2; dir++ {
							pX, pY, FX, FY := pa, pb, FA, FB
							if dir == 1 {
								pX, pY, FX, FY = pb, pa, FB, FA
							}
							nsk++
							skp := fmt.Sprintf("sumsk!%d", nsk)
							_, bX := sf.inst(pX, skp)
							_, bY := sf.inst(pY, skp)
							out = append(out, fmt.Sprintf("(declare-const %s Int)", skp))
							pwl := fmt.Sprintf("(assert (=> (=> (and (<= %s %s) (< %s %s)) (<= %s %s)) (<= %s %s)))", loA, skp, skp, n, bX, bY, FX, FY)
							out = append(out, pwl)
							pwLines = append(pwLines, [2]string{bX, bY})
						}
					}
					for _, kIdx := range cs {
						for _, pos := range []string{kIdx, "(- " + kIdx + " 1)"} {
							nsk++
							sk2 := fmt.Sprintf("sumsk!%d", nsk)
							_, bA2 := sf.inst(pa, sk2)
							_, bB2 := sf.inst(pb, sk2)
							_, bAp := sf.inst(pa, pos)
							_, bBp := sf.inst(pb, pos)
							out = append(out, fmt.Sprintf("(declare-const %s Int)", sk2))
							out = append(out, fmt.Sprintf("(assert (=> (and (<= %s %s) (< %s %s) (=> (and (<= %s %s) (< %s %s) (not (= %s %s))) (= %s %s))) (= %s (+ %s (- %s %s)))))",
								loA, pos, pos, n, loA, sk2, sk2, n, sk2, pos, bA2, bB2, FA, FB, bAp, bBp))
						}
					}
				}
			}
		}
	}
	// cross-function congruence: two different sum functions whose bodies agree on [lo,n) have equal sums
	type app struct {
		sf   *SumFn
		args []string
	}
	var all []app
	for _, k := range names {
		sf := sums[k]
		seen := map[string]bool{}
		for _, a := range sexpArgs(text, sf.Name) {
			if len(a) == len(sf.PSorts)+1 && !hasBoundArg(a) && !seen[strings.Join(a, " ")] {
				seen[strings.Join(a, " ")] = true
				all = append(all, app{sf, a})
			}
		}
	}
	crossPairs := 0
	if level >= 3 && (len(all) <= 24 || focus != "") {
		for i := 0; i < len(all); i++ {
			for j := i + 1; j < len(all); j++ {
				A, B := all[i], all[j]
				if A.sf == B.sf || crossPairs >= 24 {
					continue
				}
				if !inFocus(A.sf.Name, A.args) && !inFocus(B.sf.Name, B.args) {
					continue
				}
				pa, pb := A.args[:len(A.args)-1], B.args[:len(B.args)-1]
				loA, _ := A.sf.inst(pa, "0")
				loB, _ := B.sf.inst(pb, "0")
				if loA != loB {
					continue
				}
				if A.args[len(A.args)-1] != B.args[len(B.args)-1] {
					continue // sums over different ranges are not related pointwise
				}
				crossPairs++
				ns := []string{A.args[len(A.args)-1]}
				for _, n := range ns {
					nsk++
					sk := fmt.Sprintf("sumsk!%d", nsk)
					_, bA := A.sf.inst(pa, sk)
					_, bB := B.sf.inst(pb, sk)
					FA := sApp(A.sf.Name, append(append([]string{}, pa...), n)...)
					FB := sApp(B.sf.Name, append(append([]string{}, pb...), n)...)
					out = append(out, fmt.Sprintf("(declare-const %s Int)", sk))
					out = append(out, fmt.Sprintf("(assert (=> (=> (and (<= %s %s) (< %s %s)) (= %s %s)) (= %s %s)))", loA, sk, sk, n, bA, bB, FA, FB))
					// PW / PWU: pointwise <= gives <= of the sums; with one excepted position the inequality holds for
					// the sums without that position's terms (both directions)
					for dir := 0; dir < 2; dir++ {
						X, Y, pX, pY, FX, FY := A, B, pa, pb, FA, FB
						if dir == 1 {
							X, Y, pX, pY, FX, FY = B, A, pb, pa, FB, FA
						}
						nsk++
						skp := fmt.Sprintf("sumsk!%d", nsk)
						_, bX := X.sf.inst(pX, skp)
						_, bY := Y.sf.inst(pY, skp)
						out = append(out, fmt.Sprintf("(declare-const %s Int)", skp))
						out = append(out, fmt.Sprintf("(assert (=> (=> (and (<= %s %s) (< %s %s)) (<= %s %s)) (<= %s %s)))", loA, skp, skp, n, bX, bY, FX, FY))
						for _, pos := range idxOfTerms {
							if la := sexpArgs(pos, "idxOf"); len(la) == 0 || la[0][1] != n {
								continue
							}
							nsk++
							sku := fmt.Sprintf("sumsk!%d", nsk)
							_, bXu := X.sf.inst(pX, sku)
							_, bYu := Y.sf.inst(pY, sku)
							_, bXp := X.sf.inst(pX, pos)
							_, bYp := Y.sf.inst(pY, pos)
							out = append(out, fmt.Sprintf("(declare-const %s Int)", sku))
							out = append(out, fmt.Sprintf("(assert (=> (and (<= %s %s) (< %s %s) (=> (and (<= %s %s) (< %s %s) (not (= %s %s))) (<= %s %s))) (<= (- %s %s) (- %s %s))))",
								loA, pos, pos, n, loA, sku, sku, n, sku, pos, bXu, bYu, FX, bXp, FY, bYp))
						}
					}
				}
			}
		}
	}
	// further rounds: sum applications that occur only inside the lemma instances above (an inner sum at a lemma's own
	// skolem index) get their NONNEG instance and, between two of them that differ in parameters only, the PW instances;
	// this lets "every term is non-negative" and "pointwise <=" be established through nested sums (three levels)
	if level >= 2 {
		seenAll := map[string]bool{}
		for _, k := range names {
			for _, a := range sexpArgs(text, sums[k].Name) {
				seenAll[sums[k].Name+" "+strings.Join(a, " ")] = true
			}
		}
		// NONNEG for the sums that occur only inside lemma instances
		scanFrom := 0
		for round := 0; round < 3; round++ {
			lemText := strings.Join(out[scanFrom:], "\n")
			scanFrom = len(out)
			added := 0
			for _, k := range names {
				sf := sums[k]
				if !strings.Contains(lemText, sf.Name) {
					continue
				}
				for _, a := range sexpArgs(lemText, sf.Name) {
					key := sf.Name + " " + strings.Join(a, " ")
					if len(a) != len(sf.PSorts)+1 || hasBoundArg(a) || seenAll[key] || added >= 60 {
						continue
					}
					seenAll[key] = true
					pa, n := a[:len(a)-1], a[len(a)-1]
					lo, _ := sf.inst(pa, "0")
					nsk++
					sk := fmt.Sprintf("sumsk!%d", nsk)
					_, bsk := sf.inst(pa, sk)
					out = append(out, fmt.Sprintf("(declare-const %s Int)", sk))
					out = append(out, fmt.Sprintf("(assert (=> (=> (and (<= %s %s) (< %s %s)) (>= %s 0)) (>= %s 0)))", lo, sk, sk, n, bsk, sApp(sf.Name, a...)))
					added++
				}
			}
			// nested PW: the sums inside the two bodies compared by a PW instance are compared in the same direction
			var next [][2]string
			emitted := map[string]bool{}
			for _, pl := range pwLines {
				if level < 3 || len(next) >= 16 || noNestedPW {
					break
				}
				for _, k := range names {
					sf := sums[k]
					la, lb := sexpArgs(pl[0], sf.Name), sexpArgs(pl[1], sf.Name)
					for _, A := range la {
						for _, B := range lb {
							if len(A) != len(sf.PSorts)+1 || len(B) != len(A) || hasBoundArg(A) || hasBoundArg(B) || A[len(A)-1] != B[len(B)-1] {
								continue
							}
							key := strings.Join(A, " ") + "<=" + strings.Join(B, " ")
							if emitted[key] || strings.Join(A, " ") == strings.Join(B, " ") {
								continue
							}
							emitted[key] = true
							n := A[len(A)-1]
							pa, pb := A[:len(A)-1], B[:len(B)-1]
							loA, _ := sf.inst(pa, "0")
							nsk++
							skp := fmt.Sprintf("sumsk!%d", nsk)
							_, bX := sf.inst(pa, skp)
							_, bY := sf.inst(pb, skp)
							out = append(out, fmt.Sprintf("(declare-const %s Int)", skp))
							out = append(out, fmt.Sprintf("(assert (=> (=> (and (<= %s %s) (< %s %s)) (<= %s %s)) (<= %s %s)))", loA, skp, skp, n, bX, bY, sApp(sf.Name, A...), sApp(sf.Name, B...)))
							next = append(next, [2]string{bX, bY})
							added++
						}
					}
				}
			}
			pwLines = next
			if added == 0 {
				break
			}
		}
	}
	return out
}

// skolemizeGoal replaces the universally quantified variables in positive positions of a goal (top level, under
// "and", in the consequent of "=>") by fresh constants, so that the terms they occur in are ground in the refutation
// query and the sum unfoldings / lemmas can be instantiated on them. Equivalent to what the solver does itself.
func skolemizeGoal(e *sx, decls *[]string) *sx {
	if e.isAtom() || len(e.kids) == 0 || !e.kids[0].isAtom() {
		return e
	}
	switch e.kids[0].atom {
	case "and":
		n := &sx{kids: []*sx{e.kids[0]}}
		for _, k := range e.kids[1:] {
			n.kids = append(n.kids, skolemizeGoal(k, decls))
		}
		return n
	case "=>":
		if len(e.kids) == 3 {
			return &sx{kids: []*sx{e.kids[0], e.kids[1], skolemizeGoal(e.kids[2], decls)}}
		}
	case "!":
		if len(e.kids) >= 2 {
			return skolemizeGoal(e.kids[1], decls)
		}
	case "forall":
		if len(e.kids) == 3 && !e.kids[1].isAtom() {
			body := e.kids[2]
			for _, b := range e.kids[1].kids {
				if b.isAtom() || len(b.kids) != 2 {
					return e
				}
				name, sort := b.kids[0].atom, b.kids[1].String()
				sk := "|sk." + name + "|"
				*decls = append(*decls, fmt.Sprintf("(declare-const %s %s)", sk, sort))
				body = substAtom(body, name, sk)
			}
			return skolemizeGoal(body, decls)
		}
	}
	return e
}

func substAtom(e *sx, from, to string) *sx {
	if e.isAtom() {
		if e.atom == from {
			return &sx{atom: to}
		}
		return e
	}
	n := &sx{kids: make([]*sx, len(e.kids))}
	for i, k := range e.kids {
		n.kids[i] = substAtom(k, from, to)
	}
	return n
}

func sortedSumKeys(sums map[string]*SumFn) []string {
	var ks []string
	for k := range sums {
		ks = append(ks, k)
	}
	sort.Strings(ks)
	return ks
}

// instancesAt returns the instances of the top-level universally quantified conjuncts of e at the given skolem
// constants (matched by sort; quantifiers with several binders are instantiated for every combination, capped).
func instancesAt(e *sx, skDecls []string) []string {
	type sk struct{ name, sort string }
	var sks []sk
	for _, d := range skDecls {
		de, err := parseSx(d)
		if err == nil && len(de.kids) == 3 {
			sks = append(sks, sk{de.kids[1].atom, de.kids[2].String()})
		}
	}
	var out []string
	var visit func(e *sx)
	visit = func(e *sx) {
		if e.isAtom() || len(e.kids) == 0 || !e.kids[0].isAtom() {
			return
		}
		switch e.kids[0].atom {
		case "and":
			for _, k := range e.kids[1:] {
				visit(k)
			}
		case "!":
			if len(e.kids) >= 2 {
				visit(e.kids[1])
			}
		case "forall":
			if len(e.kids) != 3 || e.kids[1].isAtom() {
				return
			}
			binders := e.kids[1].kids
			bodies := []*sx{e.kids[2]}
			for _, b := range binders {
				if b.isAtom() || len(b.kids) != 2 {
					return
				}
				var next []*sx
				for _, body := range bodies {
					for _, s := range sks {
						if s.sort == b.kids[1].String() {
							next = append(next, substAtom(body, b.kids[0].atom, s.name))
						}
					}
				}
				bodies = next
				if len(bodies) == 0 || len(bodies) > 16 {
					return
				}
			}
			for _, b := range bodies {
				if len(b.kids) > 0 && b.kids[0].isAtom() && b.kids[0].atom == "!" && len(b.kids) >= 2 {
					b = b.kids[1]
				}
				out = append(out, b.String())
			}
		}
	}
	visit(e)
	return out
}

// distributivityInstances: for every product a*(u+v) or a*(u-v) of symbolic terms occurring in the query, the valid
// identity a*(u±v) = a*u ± a*v is asserted (the non-linear engines of the solvers do not always find it in time).
func distributivityInstances(text string) []string {
	seen := map[string]bool{}
	var out []string
	var visit func(e *sx)
	visit = func(e *sx) {
		if e.isAtom() {
			return
		}
		for _, k := range e.kids {
			visit(k)
		}
		if len(e.kids) == 3 && e.kids[0].isAtom() && e.kids[0].atom == "*" {
			if l, r := e.kids[1].String(), e.kids[2].String(); !isLiteralAtom(l) && !isLiteralAtom(r) && !strings.Contains(l+r, "sumvar") && !seen["sign|"+l+"|"+r] && len(seen) <= 60 {
				// sign of a product of two non-negative terms
				seen["sign|"+l+"|"+r] = true
				out = append(out, fmt.Sprintf("(assert (=> (and (>= %s 0) (>= %s 0)) (>= (* %s %s) 0)))", l, r, l, r))
			}
			for _, pr := range [][2]*sx{{e.kids[1], e.kids[2]}, {e.kids[2], e.kids[1]}} {
				a, b := pr[0], pr[1]
				if b.isAtom() || len(b.kids) != 3 || !b.kids[0].isAtom() || (b.kids[0].atom != "+" && b.kids[0].atom != "-") {
					continue
				}
				if isLiteralAtom(a.String()) || strings.Contains(a.String(), "sumvar") || strings.Contains(b.String(), "sumvar") {
					continue
				}
				key := a.String() + "|" + b.String()
				if seen[key] || len(seen) > 60 {
					continue
				}
				seen[key] = true
				out = append(out, fmt.Sprintf("(assert (= (* %s %s) (%s (* %s %s) (* %s %s))))", a, b, b.kids[0].atom, a, b.kids[1], a, b.kids[2]))
			}
		}
	}
	for _, line := range strings.Split(text, "\n") {
		if !strings.HasPrefix(line, "(assert") || hasBoundArg([]string{line}) && strings.Contains(line, "(forall ") {
			// quantified assertions: products under binders are not instantiated
			if strings.Contains(line, "(forall ") {
				continue
			}
		}
		if e, err := parseSx(line); err == nil {
			visit(e)
		}
	}
	return out
}

// isIntTerm: the term has sort Int according to the declarations in the query text (positions of a sum range over Int).
func isIntTerm(t, text string) bool {
	e, err := parseSx(t)
	if err != nil {
		return false
	}
	so, err := sortOfSx(e, func(name string) (string, bool) { return declaredSort(name, text) })
	return err == nil && so == "Int"
}

var declCache = struct {
	sync.Mutex
	text string
	m    map[string]string
}{}

// declaredSort looks a symbol up in the (declare-const ...) / (declare-fun ...) lines of a query.
func declaredSort(name, text string) (string, bool) {
	declCache.Lock()
	defer declCache.Unlock()
	if declCache.text != text {
		m := map[string]string{}
		for _, ln := range strings.Split(text, "\n") {
			if !strings.HasPrefix(ln, "(declare-") {
				continue
			}
			e, err := parseSx(ln)
			if err != nil || len(e.kids) < 3 {
				continue
			}
			m[e.kids[1].String()] = e.kids[len(e.kids)-1].String()
		}
		declCache.text, declCache.m = text, m
	}
	so, ok := declCache.m[name]
	return so, ok
}

// divSignInstances: for every ground quotient (div A B) occurring in the query with a symbolic divisor, the valid fact
// A >= 0 and B > 0 ==> 0 <= (div A B) <= A (the solvers' non-linear engines do not always find the sign in time).
func divSignInstances(text string) []string {
	seen := map[string]bool{}
	nums := map[string][]string{}
	var out []string
	divs := sexpArgs(text, "div")
	// quotients at lemma skolem indices first: they are the ones the nested pointwise lemmas need
	sort.SliceStable(divs, func(i, j int) bool {
		return strings.Contains(strings.Join(divs[i], " "), "sumsk!") && !strings.Contains(strings.Join(divs[j], " "), "sumsk!")
	})
	for _, a := range divs {
		if len(a) != 2 || hasBoundArg(a) || len(out) >= 240 {
			continue
		}
		if _, lit := smallLit(a[1]); lit || a[1] == "S" {
			continue
		}
		key := a[0] + " " + a[1]
		if seen[key] {
			continue
		}
		seen[key] = true
		out = append(out, fmt.Sprintf("(assert (=> (and (>= %s 0) (> %s 0)) (and (>= (div %s %s) 0) (<= (div %s %s) %s))))", a[0], a[1], a[0], a[1], a[0], a[1], a[0]))
		nums[a[0]] = append(nums[a[0]], a[1])
	}
	// the same non-negative dividend over two positive divisors: the larger divisor gives the smaller quotient
	np := 0
	var numKeys []string
	for num := range nums {
		numKeys = append(numKeys, num)
	}
	sort.SliceStable(numKeys, func(i, j int) bool {
		ci, cj := strings.Contains(numKeys[i], "sumsk!"), strings.Contains(numKeys[j], "sumsk!")
		if ci != cj {
			return ci
		}
		return numKeys[i] < numKeys[j]
	})
	for _, num := range numKeys {
		ds := nums[num]
		for x := 0; x < len(ds); x++ {
			for y := x + 1; y < len(ds) && np < 120; y++ {
				np++
				out = append(out, fmt.Sprintf("(assert (=> (and (>= %s 0) (> %s 0) (<= %s %s)) (<= (div %s %s) (div %s %s))))", num, ds[x], ds[x], ds[y], num, ds[y], num, ds[x]))
				out = append(out, fmt.Sprintf("(assert (=> (and (>= %s 0) (> %s 0) (<= %s %s)) (<= (div %s %s) (div %s %s))))", num, ds[y], ds[y], ds[x], num, ds[x], num, ds[y]))
			}
		}
	}
	return out
}
