package main

// Contract files: comment-only Go files (build tag verif) in /repo and *.spec files in /verif/contracts.
// Every line that starts with "//@" (or "@" in .spec files) belongs to the contract language:
//
//   //@ func (Keeper) PlaceBid            start of the contract of a function (closures: Name$1)
//   //@ requires <expr>
//   //@ ensures [C01,C02] name: <expr>    property labels and an optional obligation name
//   //@ modifies Auction, Bal, *msg       ghost variables / pointees the function may change
//   //@ loop 0 invariant <expr>           k-th for/range statement of the function, in source order
//   //@ loop 0 let NAME = <expr>          value snapshot taken when the loop is entered
//   //@ walk 0 invariant <expr>           k-th collections Walk call (virtual loop over the store listing)
//   //@ inline                            the function has no contract; callers execute its body
//   //@ spec name(a, b) = <expr>          non-recursive specification macro
//   //@ lemma name: forall ... <expr>     spec-level lemma, proved, then usable via "use name" (not assumed)
//
// A clause continues on following "//@" lines that do not start with a keyword.

import (
	"fmt"
	"go/ast"
	"go/parser"
	"os"
	"path/filepath"
	"regexp"
	"sort"
	"strconv"
	"strings"
)

type Clause struct {
	Kind    string   // requires, ensures, invariant, let, modifies, assert
	Labels  []string // property ids
	Name    string
	Text    string
	Expr    ast.Expr
	Loop    int
	Walk    bool
	LetVar  string
	Group   string // {name}: the clause is proved from, and visible to, only clauses of the same group plus the ungrouped ones
	Assumed bool   // trusted-ensures: assumed at call sites, not checked against the body (listed in the evidence)
	File    string
	Line    int
}

type Contract struct {
	Key      string // "(Keeper).PlaceBid", "Match", "(Keeper).Auctions$1"
	Pkg      string // package path
	Inline   bool
	Trusted  string // non-empty: the contract is assumed, not verified (reason)
	Requires []*Clause
	Ensures  []*Clause
	Modifies []string
	Exits    []*Clause         // exit: assertions at every return that may mention local variables (not part of the interface callers see)
	Searches map[int][]*Clause // search k predicate/invariant: the k-th sort.Search call
	Sets     []*Clause         // ghost assignments performed at every return: sets NAME = expr
	Loops    map[int][]*Clause // invariants and lets, by loop ordinal
	Walks    map[int][]*Clause
	File     string
	Line     int
	Props    map[string]bool
}

type SpecMacro struct {
	Name   string
	Params []string
	Body   ast.Expr
	Text   string
}

type Lemma struct {
	Name   string
	Labels []string
	Text   string
	Expr   ast.Expr
	File   string
	Line   int
}

type Contracts struct {
	ByKey  map[string]*Contract // pkgpath + "::" + key
	Macros map[string]*SpecMacro
	Lemmas []*Lemma
	Files  []string
}

var clauseKeywords = map[string]bool{"serves": true, "exit": true, "search": true, "func": true, "requires": true, "ensures": true, "modifies": true, "loop": true, "walk": true,
	"inline": true, "sets": true, "trusted-ensures": true, "spec": true, "lemma": true, "trusted": true, "package": true}

var labelRe = regexp.MustCompile(`^\[([A-Z0-9, ]+)\]\s*`)
var nameRe = regexp.MustCompile(`^([A-Za-z][A-Za-z0-9_.\-]*):\s+`)

// rewriteImp rewrites the infix operators "==>" and "<==>" (lowest precedence, right associative) into calls
// imp(a, b) / iff(a, b) so that the result is a Go expression.
func rewriteImp(s string) string {
	// first rewrite inside every parenthesised / bracketed group
	var b strings.Builder
	depth := 0
	start := -1
	for i := 0; i < len(s); i++ {
		c := s[i]
		if c == '(' || c == '[' {
			if depth == 0 {
				b.WriteByte(c)
				start = i + 1
			}
			depth++
			continue
		}
		if c == ')' || c == ']' {
			depth--
			if depth == 0 {
				b.WriteString(rewriteArgs(s[start:i]))
				b.WriteByte(c)
			}
			continue
		}
		if depth == 0 {
			b.WriteByte(c)
		}
	}
	t := b.String()
	return rewriteTop(t)
}

// rewriteArgs rewrites each comma-separated argument separately.
func rewriteArgs(s string) string {
	var parts []string
	depth, last := 0, 0
	for i := 0; i < len(s); i++ {
		switch s[i] {
		case '(', '[', '{':
			depth++
		case ')', ']', '}':
			depth--
		case ',':
			if depth == 0 {
				parts = append(parts, s[last:i])
				last = i + 1
			}
		}
	}
	parts = append(parts, s[last:])
	for i, p := range parts {
		parts[i] = rewriteImp(p)
	}
	return strings.Join(parts, ",")
}

func rewriteTop(t string) string {
	depth := 0
	for i := 0; i+3 <= len(t); i++ {
		switch t[i] {
		case '(', '[':
			depth++
		case ')', ']':
			depth--
		}
		if depth == 0 && strings.HasPrefix(t[i:], "<==>") {
			return "iff(" + t[:i] + ", " + rewriteTop(t[i+4:]) + ")"
		}
	}
	depth = 0
	for i := 0; i+3 <= len(t); i++ {
		switch t[i] {
		case '(', '[':
			depth++
		case ')', ']':
			depth--
		}
		if depth == 0 && strings.HasPrefix(t[i:], "==>") && (i == 0 || t[i-1] != '<') {
			return "imp(" + t[:i] + ", " + rewriteTop(t[i+3:]) + ")"
		}
	}
	return t
}

func parseContractExpr(text string) (ast.Expr, error) {
	t := rewriteImp(text)
	e, err := parser.ParseExpr(t)
	if err != nil {
		return nil, fmt.Errorf("%v in %q", err, t)
	}
	return e, nil
}

type rawLine struct {
	text string
	file string
	line int
}

func contractLines(file string) ([]rawLine, string, error) {
	data, err := os.ReadFile(file)
	if err != nil {
		return nil, "", err
	}
	return contractLinesFrom(file, string(data))
}

func contractLinesFrom(file, data string) ([]rawLine, string, error) {
	var out []rawLine
	pkg := ""
	isSpec := strings.HasSuffix(file, ".spec")
	for i, l := range strings.Split(data, "\n") {
		tl := strings.TrimSpace(l)
		if strings.HasPrefix(tl, "package ") && !isSpec {
			pkg = strings.TrimSpace(strings.TrimPrefix(tl, "package "))
		}
		if isSpec {
			if tl == "" || strings.HasPrefix(tl, "#") {
				continue
			}
			if !strings.HasPrefix(tl, "@") {
				// continuation of the previous clause
				out = append(out, rawLine{"\x00" + tl, file, i + 1})
				continue
			}
			out = append(out, rawLine{strings.TrimPrefix(tl, "@"), file, i + 1})
			continue
		}
		if strings.HasPrefix(tl, "//@") {
			out = append(out, rawLine{strings.TrimPrefix(tl, "//@"), file, i + 1})
		} else if tl != "" && !strings.HasPrefix(tl, "//") && !strings.HasPrefix(tl, "package ") {
			if !isSpec {
				return nil, "", fmt.Errorf("%s:%d: contract files must contain comments only, found %q", file, i+1, tl)
			}
		}
	}
	return out, pkg, nil
}

// groupClauses joins continuation lines.
func groupClauses(lines []rawLine) []rawLine {
	var out []rawLine
	for _, l := range lines {
		t := strings.TrimSpace(l.text)
		if t == "" {
			continue
		}
		first := strings.Fields(t)[0]
		if strings.HasPrefix(t, "\x00") {
			if len(out) > 0 {
				out[len(out)-1].text += " " + t[1:]
			}
			continue
		}
		if clauseKeywords[first] || len(out) == 0 {
			out = append(out, rawLine{t, l.file, l.line})
		} else {
			out[len(out)-1].text += " " + t
		}
	}
	return out
}

var groupRe = regexp.MustCompile(`^\s*\{(~?[A-Za-z0-9_-]+)\}\s*`)

func (cs *Contracts) parseFile(file, pkgPath string, data string) error {
	lines, _, err := contractLinesFrom(file, data)
	if err != nil {
		return err
	}
	cs.Files = append(cs.Files, file)
	var cur *Contract
	for _, l := range groupClauses(lines) {
		fs := strings.Fields(l.text)
		kw := fs[0]
		rest := strings.TrimSpace(strings.TrimPrefix(l.text, kw))
		mk := func(kind string, text string) (*Clause, error) {
			c := &Clause{Kind: kind, File: l.file, Line: l.line}
			if m := labelRe.FindStringSubmatch(text); m != nil {
				for _, p := range strings.Split(m[1], ",") {
					c.Labels = append(c.Labels, strings.TrimSpace(p))
				}
				text = text[len(m[0]):]
			}
			if m := groupRe.FindStringSubmatch(text); m != nil {
				c.Group = m[1]
				text = text[len(m[0]):]
			}
			if m := nameRe.FindStringSubmatch(text); m != nil {
				c.Name = m[1]
				text = text[len(m[0]):]
			}
			c.Text = text
			e, err := parseContractExpr(text)
			if err != nil {
				return nil, fmt.Errorf("%s:%d: %v", l.file, l.line, err)
			}
			c.Expr = e
			return c, nil
		}
		switch kw {
		case "package":
			pkgPath = rest
		case "func":
			key := strings.ReplaceAll(rest, " ", "")
			key = strings.Replace(key, ")", ").", 1)
			key = strings.Replace(key, "..", ".", 1)
			cur = &Contract{Key: key, Pkg: pkgPath, Loops: map[int][]*Clause{}, Walks: map[int][]*Clause{}, Searches: map[int][]*Clause{}, File: l.file, Line: l.line, Props: map[string]bool{}}
			k := pkgPath + "::" + key
			if _, dup := cs.ByKey[k]; dup {
				return fmt.Errorf("%s:%d: duplicate contract for %s", l.file, l.line, k)
			}
			cs.ByKey[k] = cur
		case "inline":
			if cur == nil {
				return fmt.Errorf("%s:%d: inline outside func", l.file, l.line)
			}
			cur.Inline = true
		case "trusted":
			cur.Trusted = rest
		case "requires", "ensures", "trusted-ensures":
			if cur == nil {
				return fmt.Errorf("%s:%d: %s outside func", l.file, l.line, kw)
			}
			assumed := kw == "trusted-ensures"
			if assumed {
				kw = "ensures"
			}
			c, err := mk(kw, rest)
			if err != nil {
				return err
			}
			c.Assumed = assumed
			if kw == "requires" {
				cur.Requires = append(cur.Requires, c)
			} else {
				cur.Ensures = append(cur.Ensures, c)
			}
			for _, p := range c.Labels {
				cur.Props[p] = true
			}
		case "serves":
			// serves C07, C02: the function's unlabelled obligations (no-panic, frames) count for these properties too
			if cur == nil {
				return fmt.Errorf("%s:%d: serves outside func", l.file, l.line)
			}
			for _, p := range strings.Split(rest, ",") {
				if p = strings.TrimSpace(p); p != "" {
					cur.Props[p] = true
				}
			}
		case "exit":
			if cur == nil {
				return fmt.Errorf("%s:%d: exit outside func", l.file, l.line)
			}
			c, err := mk("exit", rest)
			if err != nil {
				return err
			}
			cur.Exits = append(cur.Exits, c)
			for _, p := range c.Labels {
				cur.Props[p] = true
			}
		case "search":
			// search k predicate <expr over idxS> | search k invariant <expr over hiS and captured variables>
			if cur == nil || len(fs) < 3 {
				return fmt.Errorf("%s:%d: malformed search clause", l.file, l.line)
			}
			k, err := strconv.Atoi(fs[1])
			if err != nil {
				return fmt.Errorf("%s:%d: search ordinal: %v", l.file, l.line, err)
			}
			sub := fs[2]
			if sub != "predicate" && sub != "invariant" {
				return fmt.Errorf("%s:%d: unknown search clause %q", l.file, l.line, sub)
			}
			c, err := mk(sub, strings.TrimSpace(strings.SplitN(l.text, sub, 2)[1]))
			if err != nil {
				return err
			}
			c.Loop = k
			cur.Searches[k] = append(cur.Searches[k], c)
			for _, p := range c.Labels {
				cur.Props[p] = true
			}
		case "sets":
			eq := strings.Index(rest, "=")
			if cur == nil || eq < 0 {
				return fmt.Errorf("%s:%d: sets needs NAME = expr inside a func", l.file, l.line)
			}
			c, err := mk("sets", strings.TrimSpace(rest[eq+1:]))
			if err != nil {
				return err
			}
			c.LetVar = strings.TrimSpace(rest[:eq])
			cur.Sets = append(cur.Sets, c)
		case "modifies":
			for _, m := range strings.Split(rest, ",") {
				if m = strings.TrimSpace(m); m != "" {
					cur.Modifies = append(cur.Modifies, m)
				}
			}
		case "loop", "walk":
			if cur == nil || len(fs) < 3 {
				return fmt.Errorf("%s:%d: malformed %s clause", l.file, l.line, kw)
			}
			k, err := strconv.Atoi(fs[1])
			if err != nil {
				return fmt.Errorf("%s:%d: loop ordinal: %v", l.file, l.line, err)
			}
			sub := fs[2]
			body := strings.TrimSpace(strings.SplitN(l.text, sub, 2)[1])
			var c *Clause
			switch sub {
			case "invariant":
				c, err = mk("invariant", body)
			case "let":
				eq := strings.Index(body, "=")
				if eq < 0 {
					return fmt.Errorf("%s:%d: let needs NAME = expr", l.file, l.line)
				}
				c, err = mk("let", strings.TrimSpace(body[eq+1:]))
				if c != nil {
					c.LetVar = strings.TrimSpace(body[:eq])
				}
			default:
				return fmt.Errorf("%s:%d: unknown loop clause %q", l.file, l.line, sub)
			}
			if err != nil {
				return err
			}
			c.Loop = k
			for _, p := range c.Labels {
				cur.Props[p] = true
			}
			if kw == "walk" {
				c.Walk = true
				cur.Walks[k] = append(cur.Walks[k], c)
			} else {
				cur.Loops[k] = append(cur.Loops[k], c)
			}
		case "spec":
			// spec name(a, b) = expr
			eq := strings.Index(rest, "=")
			lp, rp := strings.Index(rest, "("), strings.Index(rest, ")")
			if eq < 0 || lp < 0 || rp < 0 || rp > eq {
				return fmt.Errorf("%s:%d: malformed spec", l.file, l.line)
			}
			m := &SpecMacro{Name: strings.TrimSpace(rest[:lp]), Text: strings.TrimSpace(rest[eq+1:])}
			for _, p := range strings.Split(rest[lp+1:rp], ",") {
				if p = strings.TrimSpace(p); p != "" {
					m.Params = append(m.Params, strings.Fields(p)[0])
				}
			}
			e, err := parseContractExpr(m.Text)
			if err != nil {
				return fmt.Errorf("%s:%d: %v", l.file, l.line, err)
			}
			m.Body = e
			if _, dup := cs.Macros[m.Name]; dup {
				return fmt.Errorf("%s:%d: duplicate spec %s", l.file, l.line, m.Name)
			}
			cs.Macros[m.Name] = m
		case "lemma":
			c, err := mk("lemma", rest)
			if err != nil {
				return err
			}
			cs.Lemmas = append(cs.Lemmas, &Lemma{Name: c.Name, Labels: c.Labels, Text: c.Text, Expr: c.Expr, File: l.file, Line: l.line})
		default:
			return fmt.Errorf("%s:%d: unknown clause keyword %q", l.file, l.line, kw)
		}
	}
	return nil
}

// loadContracts reads every zz_contracts_verif.go of the module packages (through the overlay-aware reader) and
// every *.spec file of /verif/contracts.
func loadContracts(repo string, specDir string, read func(string) ([]byte, error)) (*Contracts, error) {
	cs := &Contracts{ByKey: map[string]*Contract{}, Macros: map[string]*SpecMacro{}}
	specs, _ := filepath.Glob(filepath.Join(specDir, "*.spec"))
	sort.Strings(specs)
	for _, f := range specs {
		data, err := os.ReadFile(f)
		if err != nil {
			return nil, err
		}
		if err := cs.parseFile(f, "", string(data)); err != nil {
			return nil, err
		}
	}
	for _, p := range [][2]string{{"x/fundraising/types", modTypes}, {"x/fundraising/keeper", modKeeper}, {"x/fundraising/module", modModule}} {
		fs, _ := filepath.Glob(filepath.Join(repo, p[0], "*_verif.go"))
		sort.Strings(fs)
		for _, f := range fs {
			data, err := read(f)
			if err != nil {
				return nil, err
			}
			if !strings.Contains(string(data), "//go:build verif") {
				return nil, fmt.Errorf("%s: contract file without the verif build tag", f)
			}
			if err := cs.parseFile(f, p[1], string(data)); err != nil {
				return nil, err
			}
		}
	}
	return cs, nil
}
