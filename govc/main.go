package main

import (
	"encoding/json"
	"flag"
	"fmt"
	"os"
	"sort"
	"strings"

	"golang.org/x/tools/go/ssa"
)

func usage() {
	fmt.Fprintln(os.Stderr, `usage:
  govc check <Cxx|all> [--tier quick|thorough] [--overlay file=replacement ...]
  govc verify <funckey-substring> ...      verify single functions (all their obligations), verbose
  govc callees <funckey-substring>         list callees of functions (development aid)
  govc list                                list contracts and the properties they serve
  govc selftest [Cxx]                      run the must-fail corpus`)
	os.Exit(2)
}

type overlayFlag []string

func (o *overlayFlag) String() string     { return strings.Join(*o, ",") }
func (o *overlayFlag) Set(s string) error { *o = append(*o, s); return nil }

func newVerifier(repo string, overlays []string, tier string) (*Verifier, error) {
	V := &Verifier{repo: repo, strConsts: map[string]string{}, strName: map[string]string{}, overlay: map[string][]byte{}, tier: tier}
	for _, o := range overlays {
		kv := strings.SplitN(o, "=", 2)
		if len(kv) != 2 {
			return nil, fmt.Errorf("bad overlay %q", o)
		}
		b, err := os.ReadFile(kv[1])
		if err != nil {
			return nil, err
		}
		V.overlay[kv[0]] = b
		if V.overlayFiles == nil {
			V.overlayFiles = map[string]string{}
		}
		V.overlayFiles[kv[0]] = kv[1]
	}
	V.timeout = 10
	if tier == "thorough" {
		V.timeout = 60
	}
	if s := os.Getenv("VERIF_SEED"); s != "" {
		fmt.Sscan(s, &V.seed)
	}
	V.initGhostFuncs()
	return V, nil
}

func main() {
	if len(os.Args) < 2 {
		usage()
	}
	cmd := os.Args[1]
	fs := flag.NewFlagSet(cmd, flag.ExitOnError)
	tier := fs.String("tier", envOr("VERIF_TIER", "quick"), "quick|thorough")
	repo := fs.String("repo", "/repo", "repository root")
	verbose := fs.Bool("v", false, "verbose")
	keep := fs.String("keep", "", "directory to keep all SMT queries in")
	var overlays overlayFlag
	fs.Var(&overlays, "overlay", "file=replacement (may repeat)")
	var pos []string
	args := os.Args[2:]
	for len(args) > 0 {
		if strings.HasPrefix(args[0], "-") {
			fs.Parse(args)
			args = fs.Args()
			continue
		}
		pos = append(pos, args[0])
		args = args[1:]
	}
	V, err := newVerifier(*repo, overlays, *tier)
	if err != nil {
		fmt.Fprintln(os.Stderr, "error:", err)
		os.Exit(2)
	}
	V.keepQueries = *keep
	switch cmd {
	case "callees":
		must(V.load("./x/fundraising/types", "./x/fundraising/keeper", "./x/fundraising/module"))
		cmdCallees(V, pos)
	case "ssa":
		must(V.load("./x/fundraising/types", "./x/fundraising/keeper", "./x/fundraising/module"))
		for _, k := range V.sortedFnKeys() {
			for _, pt := range pos {
				if strings.Contains(k, pt) {
					V.fnByKey[k].WriteTo(os.Stdout)
				}
			}
		}
	case "list":
		must(V.loadAll())
		cmdList(V)
	case "verify":
		must(V.loadAll())
		os.Exit(cmdVerify(V, pos, *verbose))
	case "check":
		if len(pos) != 1 {
			usage()
		}
		os.Exit(cmdCheck(V, pos[0], *verbose))
	case "selftest":
		os.Exit(cmdSelftest(V, pos, *verbose))
	case "tsigma":
		res := runTSigma()
		b, _ := json.MarshalIndent(res, "", " ")
		fmt.Println(string(b))
		if res["result"] != "pass" {
			os.Exit(2)
		}
	default:
		usage()
	}
}

func envOr(k, d string) string {
	if v := os.Getenv(k); v != "" {
		return v
	}
	return d
}

func must(err error) {
	if err != nil {
		fmt.Fprintln(os.Stderr, "BROKEN:", err)
		os.Exit(2)
	}
}

func (V *Verifier) loadAll() error {
	if err := V.load("./x/fundraising/types", "./x/fundraising/keeper", "./x/fundraising/module"); err != nil {
		return err
	}
	cs, err := loadContracts(V.repo, "/verif/contracts", V.readFile)
	if err != nil {
		return err
	}
	V.cs = cs
	return nil
}

func cmdCallees(V *Verifier, pats []string) {
	seen := map[string][]string{}
	for _, k := range V.sortedFnKeys() {
		match := len(pats) == 0
		for _, p := range pats {
			if strings.Contains(k, p) {
				match = true
			}
		}
		if !match {
			continue
		}
		fn := V.fnByKey[k]
		if f := V.prog.Fset.Position(fn.Pos()).Filename; strings.HasSuffix(f, ".pb.go") || strings.HasSuffix(f, ".pb.gw.go") || strings.Contains(f, "/simulation") || strings.HasSuffix(f, "_test.go") {
			continue
		}
		for _, b := range fn.Blocks {
			for _, in := range b.Instrs {
				ci, ok := in.(ssa.CallInstruction)
				if !ok {
					continue
				}
				c := ci.Common()
				var n string
				if c.IsInvoke() {
					n = "invoke " + namedOf(c.Value.Type()) + "." + c.Method.Name()
				} else if f, ok := c.Value.(*ssa.Function); ok {
					n = normName(f.String())
				} else if b, ok := c.Value.(*ssa.Builtin); ok {
					n = "builtin " + b.Name()
				} else {
					n = "dynamic " + c.Value.String()
				}
				seen[n] = append(seen[n], k)
			}
		}
	}
	var ns []string
	for n := range seen {
		ns = append(ns, n)
	}
	sort.Strings(ns)
	for _, n := range ns {
		_, has := externs[n]
		mark := " "
		if has {
			mark = "E"
		}
		fmt.Printf("%s %-90s %d\n", mark, n, len(seen[n]))
	}
}

func cmdList(V *Verifier) {
	var ks []string
	for k := range V.cs.ByKey {
		ks = append(ks, k)
	}
	sort.Strings(ks)
	for _, k := range ks {
		c := V.cs.ByKey[k]
		_, ok := V.fnByKey[k]
		st := ""
		if !ok {
			st = "  (NO SUCH FUNCTION)"
		}
		fmt.Printf("%-70s props=%v inline=%v%s\n", k, sortedSet(c.Props), c.Inline, st)
	}
}

func jsonOut(path string, v interface{}) error {
	b, err := json.MarshalIndent(v, "", " ")
	if err != nil {
		return err
	}
	return os.WriteFile(path, append(b, '\n'), 0o644)
}
