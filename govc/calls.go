package main

// Call handling: builtins, extern models, callee contracts, inlining of loop-free module functions and closures.

import (
	"fmt"
	"go/token"
	"go/types"
	"os"
	"sort"
	"strings"

	"golang.org/x/tools/go/ssa"
)

// normName strips type arguments: "(cosmossdk.io/collections.Map[uint64,...]).Get" -> "(cosmossdk.io/collections.Map).Get".
func normName(s string) string {
	var b strings.Builder
	d := 0
	for i := 0; i < len(s); i++ {
		switch s[i] {
		case '[':
			d++
		case ']':
			d--
		default:
			if d == 0 {
				b.WriteByte(s[i])
			}
		}
	}
	return b.String()
}

type externFn func(x *X, s *State, c *ssa.CallCommon, args []Val, call ssa.Value) (Val, bool)

// call executes a call instruction; returns false if the path ended or continues elsewhere.
func (x *X) call(s *State, i *ssa.Call) bool {
	fr := s.top()
	c := i.Common()
	finish := func(v Val) bool {
		if s.dead {
			x.paths++
			return false
		}
		fr.env[i] = v
		fr.idx++
		return true
	}
	var args []Val
	if c.IsInvoke() {
		recv := x.val(s, c.Value)
		for _, a := range c.Args {
			args = append(args, x.val(s, a))
		}
		return x.invoke(s, i, recv, c.Method, args)
	}
	for _, a := range c.Args {
		args = append(args, x.val(s, a))
	}
	switch callee := c.Value.(type) {
	case *ssa.Builtin:
		return finish(x.builtin(s, callee, c, args))
	case *ssa.Function:
		return x.callStatic(s, i, callee, args, nil)
	case *ssa.MakeClosure:
		cl := x.val(s, callee).(Clo)
		return x.callStatic(s, i, cl.Fn, args, cl.Bind)
	default:
		switch fv := x.val(s, c.Value).(type) {
		case Clo:
			return x.callStatic(s, i, fv.Fn, args, fv.Bind)
		case FnVal:
			return x.callStatic(s, i, fv.Fn, args, nil)
		}
		x.fail("call through a function value the engine cannot resolve: %s", i)
	}
	return false
}

func (x *X) builtin(s *State, b *ssa.Builtin, c *ssa.CallCommon, args []Val) Val {
	switch b.Name() {
	case "len":
		switch v := args[0].(type) {
		case Sl:
			if !isLiteralAtom(v.Len) { // a slice length is a non-negative int (language guarantee)
				s.assume(fmt.Sprintf("(and (>= %s 0) (<= %s 9223372036854775807))", v.Len, v.Len))
			}
			return Sc{T: v.Len, Sort: "Int"}
		case MapV:
			// len(m): a non-negative integer that is zero exactly when no key is present (all a contract can say about
			// the cardinality of an unbounded map; enough for the "nothing to do" shortcuts code writes with it)
			if v.ID == 0 {
				return Sc{T: "0", Sort: "Int"}
			}
			m := s.maps[v.ID]
			n := x.sym("map.len", "Int")
			kq := x.bound("k", m.KSort)
			s.assume(fmt.Sprintf("(and (>= %s 0) (<= %s 9223372036854775807))", n, n))
			s.assume(fmt.Sprintf("(=> (= %s 0) (forall ((%s %s)) (! (not (select %s %s)) :pattern ((select %s %s)))))", n, kq, m.KSort, m.Dom, kq, m.Dom, kq))
			s.assume(fmt.Sprintf("(forall ((%s %s)) (! (=> (select %s %s) (> %s 0)) :pattern ((select %s %s))))", kq, m.KSort, m.Dom, kq, n, m.Dom, kq))
			return Sc{T: n, Sort: "Int"}
		case St:
			return Sc{T: fmt.Sprint(len(v.F)), Sort: "Int"}
		case Sc:
			if v.Sort == "Str" {
				return Sc{T: sApp("strlen", v.T), Sort: "Int"}
			}
			if v.Sort == "Coins" || v.Sort == "(Array Str Int)" {
				// len(sdk.Coins): zero iff no denomination has a positive amount (valid Coins hold positive amounts)
				n := x.sym("coins.len", "Int")
				d := x.bound("d", "Str")
				s.assume(fmt.Sprintf("(and (>= %s 0) (= (= %s 0) (forall ((%s Str)) (= (select %s %s) 0))))", n, n, d, v.T, d))
				return Sc{T: n, Sort: "Int"}
			}
		}
		x.fail("len of %T", args[0])
	case "append":
		old, ok := args[0].(Sl)
		if !ok {
			x.fail("append to %T", args[0])
		}
		add, ok := args[1].(Sl)
		if !ok {
			x.fail("append of %T", args[1])
		}
		st := c.Args[0].Type().Underlying().(*types.Slice)
		var el Val
		if oe := x.slElem(s, old); oe != nil {
			el = x.flat(s, oe)
		} else {
			el = x.zero(s, st.Elem(), func(so string) string { return arrSort("Int", so) })
		}
		if add.Len == "1" {
			ev := selV(x.flat(s, x.slElem(s, add)), "0")
			x.checkNoNil(s, ev, "slice")
			el = stoV(el, ev, old.Len)
			id := x.newID()
			s.arrs[id] = el
			return Sl{id, sApp("+", old.Len, "1"), nil}
		}
		if add.Len == "0" {
			return old
		}
		// general append: fresh contents related to both parts by a quantified fact
		n := x.sym("append.len", "Int")
		s.assume(sEq(n, sApp("+", old.Len, add.Len)))
		nel := x.havocLike(s, "append.e", nil, el)
		j := x.bound("j", "Int")
		ae := x.flat(s, x.slElem(s, add))
		s.assume(fmt.Sprintf("(forall ((%s Int)) (and (=> (and (<= 0 %s) (< %s %s)) %s) (=> (and (<= %s %s) (< %s %s)) %s)))", j,
			j, j, old.Len, x.eqV(selV(nel, j), selV(el, j)),
			old.Len, j, j, n, x.eqV(selV(nel, j), selV(ae, sApp("-", j, old.Len)))))
		id := x.newID()
		s.arrs[id] = nel
		return Sl{id, n, nil}
	case "copy":
		x.fail("builtin copy")
	case "delete":
		mv := args[0].(MapV)
		m := s.maps[mv.ID]
		m.Dom = sStore(m.Dom, tm(args[1]), "false")
		s.maps[mv.ID] = m
		return Tuple{}
	case "min", "max":
		f := "min2"
		if b.Name() == "max" {
			f = "max2"
		}
		return Sc{T: sApp(f, tm(args[0]), tm(args[1])), Sort: "Int"}
	}
	x.fail("builtin %s", b.Name())
	return nil
}

func inModule(fn *ssa.Function) bool {
	return strings.HasPrefix(fnPkgPath(fn), "github.com/tendermint/fundraising/x/fundraising")
}

func hasLoop(fn *ssa.Function) bool {
	for _, b := range fn.Blocks {
		if isLoopHeader(b) {
			return true
		}
	}
	return false
}

func (x *X) callStatic(s *State, i *ssa.Call, callee *ssa.Function, args []Val, bind []Val) bool {
	fr := s.top()
	name := normName(callee.String())
	finish := func(v Val) bool {
		if s.dead {
			x.paths++
			return false
		}
		fr.env[i] = v
		fr.idx++
		return true
	}
	if callee.Parent() != nil { // closure: execute its body
		x.inlined[name] = true
		x.pushFrame(s, callee, args, bind, i, nil)
		return true
	}
	if h, ok := externs[name]; ok {
		x.externs[name] = true
		v, cont := h(x, s, i.Common(), args, i)
		if !cont {
			return false
		}
		return finish(v)
	}
	if inModule(callee) {
		key := x.V.keyOfFn[callee]
		if ct, ok := x.V.cs.ByKey[key]; ok && !ct.Inline {
			v := x.applyContract(s, callee, ct, args, x.site(s))
			return finish(v)
		}
		if hasLoop(callee) {
			x.fail("call to %s, which has a loop and no contract", name)
		}
		x.inlined[name] = true
		x.pushFrame(s, callee, args, nil, i, nil)
		return true
	}
	x.fail("call to %s: no extern model", name)
	return false
}

// applyContract replaces a call by the callee's contract: check requires, havoc modifies, assume ensures.
func (x *X) applyContract(s *State, callee *ssa.Function, ct *Contract, args []Val, site string) Val {
	key := fnKey(callee)
	x.callCnt[key]++
	k := x.callCnt[key]
	if ct.Trusted != "" {
		x.assumed[key+" (trusted: "+ct.Trusted+")"] = true
	}
	am := map[string]Val{}
	for j, p := range callee.Params {
		am[p.Name()] = args[j]
	}
	pre := s.snapshot()
	for n, c := range ct.Requires {
		g := x.evalClause(s, c, evalCtx{callee: callee, args: am, old: pre, pre: true})
		x.emit(s, "pre", fmt.Sprintf("call.%s#%d.requires%d@%s", key, k, n, site), nil, g, c.Text)
		s.assume(g)
	}
	// havoc what the callee may modify
	for _, m := range ct.Modifies {
		x.havocTarget(s, m, am, "c."+callee.Name())
	}
	// the bookkeeping ghosts that checkFrame exempts (the effect log itself) move with every callee that has effects:
	// the clock only advances, HookOK / ExternOK only fall, the recorded hook arguments and the event count are whatever
	// the callee's postconditions say. (Leaving them untouched made "hookT > old(Clock) && hookT <= Clock" contradictory
	// at call sites and every later obligation on the hooks != nil paths vacuous.)
	if len(ct.Modifies) > 0 && os.Getenv("GOVC_SELFTEST_NO_BOOKKEEPING_HAVOC") == "" { // the switch exists for the engine selftest only (it re-creates the vacuity hole)
		mods := map[string]bool{}
		for _, m := range ct.Modifies {
			mods[m] = true
		}
		oldClock := tm(s.ghost["Clock"])
		if !mods["Clock"] {
			x.havocTarget(s, "Clock", am, "c."+callee.Name())
		}
		s.assume(sApp(">=", tm(s.ghost["Clock"]), oldClock))
		for _, g := range []string{"HookOK", "ExternOK"} {
			if mods[g] {
				continue
			}
			// only callees that can reach a listener (a bank or store failure) can lower the respective flag
			if g == "HookOK" && !(mods["HookN"] || mods["HookT"]) {
				continue
			}
			if g == "ExternOK" && !(mods["Bal"] || mods["XferN"] || mods["XferT"] || mods["Pool"] || mods["SetT"]) {
				continue
			}
			o := tm(s.ghost[g])
			x.havocTarget(s, g, am, "c."+callee.Name())
			s.assume(sImp(tm(s.ghost[g]), o))
		}
		if (mods["HookN"] || mods["HookT"]) && !mods["HookArgs"] {
			x.havocTarget(s, "HookArgs", am, "c."+callee.Name())
		}
		if !mods["EventN"] {
			if _, ok := s.ghost["EventN"]; ok {
				oe := tm(s.ghost["EventN"])
				x.havocTarget(s, "EventN", am, "c."+callee.Name())
				_ = oe
			}
		}
	}
	// results
	var res []Val
	sig := callee.Signature.Results()
	for j := 0; j < sig.Len(); j++ {
		v := x.mk(s, fmt.Sprintf("r.%s#%d.%d", callee.Name(), k, j), sig.At(j).Type(), idWrap, false)
		if sc, ok := v.(Sc); ok && namedOf(sig.At(j).Type()) == "" {
			s.assume(rangeFact(sc.T, sig.At(j).Type()))
		}
		if sl, ok := v.(Sl); ok && sl.ID == 0 && sl.Elem != nil {
			// a returned slice owns a backing array the caller may hand to functions that write to it
			if _, opq := sl.Elem.(Opq); !opq {
				if _, ia := sl.Elem.(IfaceArr); !ia {
					id := x.newID()
					s.arrs[id] = sl.Elem
					v = Sl{id, sl.Len, nil}
				}
			}
		}
		res = append(res, v)
	}
	for _, c := range ct.Sets {
		s.ghost[c.LetVar] = x.flat(s, x.newEv(s, evalCtx{callee: callee, args: am, old: pre, results: res, post: true}).eval(c.Expr))
	}
	for _, c := range ct.Ensures {
		if c.Assumed {
			x.assumed[key+": trusted-ensures "+c.Name+" ("+c.Text+")"] = true
		}
		s.assumeG(c.Group, x.evalClause(s, c, evalCtx{callee: callee, args: am, old: pre, results: res, post: true, assuming: true}))
	}
	switch len(res) {
	case 0:
		return Tuple{}
	case 1:
		return res[0]
	}
	return Tuple(res)
}

// havocTarget havocs a modifies target: a ghost variable name, or "*param" (pointee / interface object of a parameter).
func (x *X) havocTarget(s *State, m string, am map[string]Val, prefix string) {
	if strings.HasPrefix(m, "*") {
		v, ok := am[strings.TrimPrefix(m, "*")]
		if !ok {
			x.fail("modifies %s: no such parameter", m)
		}
		x.havocObject(s, v, prefix+"."+m[1:])
		return
	}
	cur, ok := s.ghost[m]
	if !ok {
		x.fail("modifies %s: no such ghost variable", m)
	}
	switch g := cur.(type) {
	case *GMap:
		s.ghost[m] = g.fresh(x, s, prefix+".")
	case Sc:
		s.ghost[m] = Sc{T: x.sym(prefix+"."+m, g.Sort), Sort: g.Sort}
		if m == "Bal" {
			x.assumeBalNonNeg(s)
		}
	case GRec:
		s.ghost[m] = GRec{Present: x.sym(prefix+"."+m+".present", "Bool"), V: x.havocLike(s, prefix+"."+m, nil, g.V)}
	case St:
		s.ghost[m] = x.havocLike(s, prefix+"."+m, nil, g)
	default:
		x.fail("modifies %s: unsupported ghost kind %T", m, cur)
	}
}

func (x *X) havocObject(s *State, v Val, prefix string) {
	switch p := v.(type) {
	case Ptr:
		if p.Obj == 0 {
			return
		}
		o := pathGet(s.objs[p.Obj], p.Path)
		if st, ok := o.(St); ok {
			n := St{map[string]Val{}}
			for k, f := range st.F {
				if fp, isP := f.(Ptr); isP {
					x.havocObject(s, fp, prefix+"."+k)
					n.F[k] = f
				} else {
					n.F[k] = x.havocLike(s, prefix+"."+k, nil, f)
				}
			}
			s.objs[p.Obj] = pathSet(s.objs[p.Obj], p.Path, n)
		}
	case Iface:
		x.havocObject(s, p.V, prefix)
	case Sl:
		// the elements of the backing array may be rewritten (the length of the caller's slice value is unchanged)
		if p.ID == 0 {
			x.fail("modifies *%s: the slice has no mutable backing store in the model", prefix)
		}
		s.arrs[p.ID] = x.havocLike(s, prefix+".e", nil, x.flat(s, s.arrs[p.ID]))
	}
}

// checkFrame: ghost variables that are not listed in modifies must be unchanged at every return.
func (x *X) checkFrame(s *State) {
	mod := map[string]bool{}
	for _, m := range x.ct.Modifies {
		mod[m] = true
	}
	if mod["*"] {
		return
	}
	for _, n := range ghostVarNames {
		if mod[n] {
			continue
		}
		switch n {
		case "Clock", "ExternOK", "HookOK", "HookArgs", "EventN":
			continue // bookkeeping of the effect log itself
		}
		cur, old := s.ghost[n], x.entry.ghost[n]
		var g string
		switch c := cur.(type) {
		case *GMap:
			if c == old.(*GMap) {
				continue
			}
			g = c.equal(x, old.(*GMap))
		case Sc:
			g = sEq(c.T, tm(old))
		case GRec:
			o := old.(GRec)
			g = sAnd(sEq(c.Present, o.Present), x.eqV(c.V, o.V))
		default:
			continue
		}
		if g == "true" {
			continue
		}
		x.emit(s, "frame", fmt.Sprintf("frame.%s-unchanged@b%d", n, s.top().block.Index), nil, g, "modifies clause does not list "+n)
	}
}

// havocCallEffects: heap locations a call inside a loop may write (for the loop havoc).
func (x *X) havocCallEffects(s *State, i ssa.CallInstruction, wObj map[int]map[string][]string, wArr, wMap map[int]bool) {
	c := i.Common()
	mark := func(v Val) {
		switch p := v.(type) {
		case Ptr:
			if p.Obj != 0 {
				if wObj[p.Obj] == nil {
					wObj[p.Obj] = map[string][]string{}
				}
				wObj[p.Obj][strings.Join(p.Path, "\x00")] = p.Path
			}
		case Iface:
			if pp, ok := p.V.(Ptr); ok && pp.Obj != 0 && p.Kind != "" {
				// AuctionI objects may be mutated through setters
				if wObj[pp.Obj] == nil {
					wObj[pp.Obj] = map[string][]string{}
				}
				wObj[pp.Obj][""] = nil
				if outer, ok := s.objs[pp.Obj].(St); ok {
					if bp, ok := outer.F["BaseAuction"].(Ptr); ok && bp.Obj != 0 {
						if wObj[bp.Obj] == nil {
							wObj[bp.Obj] = map[string][]string{}
						}
						wObj[bp.Obj][""] = nil
					}
				}
			}
		case Clo:
			for _, b := range p.Bind {
				if bp, ok := b.(Ptr); ok && bp.Obj != 0 {
					if wObj[bp.Obj] == nil {
						wObj[bp.Obj] = map[string][]string{}
					}
					wObj[bp.Obj][strings.Join(bp.Path, "\x00")] = bp.Path
				}
			}
		}
	}
	var callee *ssa.Function
	if !c.IsInvoke() {
		callee, _ = c.Value.(*ssa.Function)
	}
	pure := callee != nil && (pureExterns[normName(callee.String())] || x.effectFreeCall(c))
	if pure {
		return
	}
	// pointer receivers / pointer arguments may be written by the callee
	for _, a := range c.Args {
		if _, isPtr := a.Type().Underlying().(*types.Pointer); isPtr {
			if v := x.tryVal(s, a); v != nil {
				mark(v)
			} else if p, ok := x.tryAddr(s, a); ok {
				mark(p)
			}
		}
	}
	if c.IsInvoke() {
		if v := x.tryVal(s, c.Value); v != nil {
			if strings.HasPrefix(c.Method.Name(), "Set") {
				// AuctionI setters write exactly the fields their (*BaseAuction) body stores to
				if iv, ok := v.(Iface); ok && iv.Kind != "" {
					if pp, ok := iv.V.(Ptr); ok && pp.Obj != 0 {
						if outer, ok := s.objs[pp.Obj].(St); ok {
							if bp, ok := outer.F["BaseAuction"].(Ptr); ok && bp.Obj != 0 {
								if fields, ok := x.setterFields(c.Method.Name()); ok {
									if wObj[bp.Obj] == nil {
										wObj[bp.Obj] = map[string][]string{}
									}
									for _, f := range fields {
										wObj[bp.Obj][f] = []string{f}
									}
									return
								}
							}
						}
					}
				}
				mark(v)
			}
		}
	}
}

// setterFields: the BaseAuction fields a (*BaseAuction).SetX method stores to (nil, false if it does anything else).
func (x *X) setterFields(name string) ([]string, bool) {
	base := x.V.lookupType("BaseAuction")
	mset := x.V.prog.MethodSets.MethodSet(types.NewPointer(base))
	var fn *ssa.Function
	for i := 0; i < mset.Len(); i++ {
		if mset.At(i).Obj().Name() == name {
			fn = x.V.prog.MethodValue(mset.At(i))
		}
	}
	if fn == nil || len(fn.Blocks) != 1 {
		return nil, false
	}
	var out []string
	for _, in := range fn.Blocks[0].Instrs {
		switch i := in.(type) {
		case *ssa.Store:
			fa, ok := i.Addr.(*ssa.FieldAddr)
			if !ok || fa.X != fn.Params[0] {
				return nil, false
			}
			out = append(out, fieldName(fa.X.Type().Underlying().(*types.Pointer).Elem(), fa.Field))
		case ssa.CallInstruction:
			return nil, false
		}
	}
	return out, len(out) > 0
}

// ghost havoc for loops: ghost variables written by calls inside the loop.
func (x *X) loopGhostWrites(s *State, h *ssa.BasicBlock) map[string]bool {
	w := map[string]bool{}
	for b := range loopBlocks(h) {
		for _, in := range b.Instrs {
			ci, ok := in.(ssa.CallInstruction)
			if !ok {
				continue
			}
			c := ci.Common()
			if c.IsInvoke() {
				tn := namedOf(c.Value.Type())
				for _, g := range invokeWrites[tn+"."+c.Method.Name()] {
					w[g] = true
				}
				if strings.HasSuffix(tn, ".FundraisingHooks") {
					for _, g := range []string{"HookN", "HookT", "Clock", "HookOK", "HookArgs"} {
						w[g] = true
					}
				}
				continue
			}
			callee, _ := c.Value.(*ssa.Function)
			if callee == nil {
				continue
			}
			name := normName(callee.String())
			if ws, ok := externWrites[name]; ok {
				for _, g := range ws {
					if g == "@recv" {
						if cv, ok := x.tryVal(s, c.Args[0]).(Coll); ok {
							w[cv.Name] = true
							w["SetT"] = true
							w["Clock"] = true
						} else {
							x.fail("cannot resolve the collection written in a loop: %s", in)
						}
					} else {
						w[g] = true
					}
				}
				continue
			}
			if inModule(callee) {
				if ct, ok := x.V.cs.ByKey[x.V.keyOfFn[callee]]; ok && !ct.Inline {
					for _, m := range ct.Modifies {
						if !strings.HasPrefix(m, "*") {
							w[m] = true
						}
					}
					continue
				}
				// inlined callee: scan its calls transitively
				for g := range x.fnGhostWrites(s, callee, map[*ssa.Function]bool{}) {
					w[g] = true
				}
			}
		}
	}
	return w
}

func (x *X) fnGhostWrites(s *State, fn *ssa.Function, seen map[*ssa.Function]bool) map[string]bool {
	w := map[string]bool{}
	if seen[fn] {
		return w
	}
	seen[fn] = true
	for _, b := range fn.Blocks {
		for _, in := range b.Instrs {
			ci, ok := in.(ssa.CallInstruction)
			if !ok {
				continue
			}
			c := ci.Common()
			if c.IsInvoke() {
				tn := namedOf(c.Value.Type())
				for _, g := range invokeWrites[tn+"."+c.Method.Name()] {
					w[g] = true
				}
				if strings.HasSuffix(tn, ".FundraisingHooks") {
					for _, g := range []string{"HookN", "HookT", "Clock", "HookOK", "HookArgs"} {
						w[g] = true
					}
				}
				continue
			}
			callee, _ := c.Value.(*ssa.Function)
			if callee == nil {
				continue
			}
			name := normName(callee.String())
			if ws, ok := externWrites[name]; ok {
				for _, g := range ws {
					if g == "@recv" {
						// receiver collection: a field of the Keeper parameter
						if fld := collFieldOf(c.Args[0]); fld != "" {
							w[fld] = true
							w["SetT"] = true
							w["Clock"] = true
						} else {
							x.fail("cannot resolve the collection written by %s", in)
						}
					} else {
						w[g] = true
					}
				}
				continue
			}
			if inModule(callee) {
				if ct, ok := x.V.cs.ByKey[x.V.keyOfFn[callee]]; ok && !ct.Inline {
					for _, m := range ct.Modifies {
						if !strings.HasPrefix(m, "*") {
							w[m] = true
						}
					}
					continue
				}
				for g := range x.fnGhostWrites(s, callee, seen) {
					w[g] = true
				}
			}
		}
	}
	return w
}

// collFieldOf recognises "k.<Field>" loads of the Keeper value.
func collFieldOf(v ssa.Value) string {
	switch y := v.(type) {
	case *ssa.Field:
		return fieldName(y.X.Type(), y.Field)
	case *ssa.UnOp:
		if y.Op == token.MUL {
			if fa, ok := y.X.(*ssa.FieldAddr); ok {
				return fieldName(fa.X.Type().Underlying().(*types.Pointer).Elem(), fa.Field)
			}
		}
	}
	return ""
}

func (x *X) effectFreeCall(c *ssa.CallCommon) bool {
	if c.IsInvoke() {
		return false
	}
	f, ok := c.Value.(*ssa.Function)
	if !ok {
		return false
	}
	n := normName(f.String())
	return strings.HasPrefix(n, "github.com/cosmos/cosmos-sdk/telemetry.") || n == "time.Now" || pureExterns[n]
}

func sortedSet(m map[string]bool) []string {
	var out []string
	for k := range m {
		out = append(out, k)
	}
	sort.Strings(out)
	return out
}
