package main

// Extern models: assumed contracts of dependencies, written as term builders. Every model used by a verified
// function is listed in the evidence file (assumption A7). The arithmetic definitions are the define-funs of
// the prelude (smt.go), conformance-tested against cosmossdk.io/math by the thorough tier.

import (
	"fmt"
	"go/types"
	"strings"

	"golang.org/x/tools/go/ssa"
)

var externs = map[string]externFn{}
var pureExterns = map[string]bool{}

// externWrites: ghost variables written by an extern ("@recv" = the receiver collection).
var externWrites = map[string][]string{}

// invokeWrites: ghost variables written by interface method calls.
var invokeWrites = map[string][]string{}

func pure(name string, f func(x *X, s *State, a []Val) Val) {
	externs[name] = func(x *X, s *State, c *ssa.CallCommon, a []Val, call ssa.Value) (Val, bool) { return f(x, s, a), true }
	pureExterns[name] = true
}

const mInt = "(cosmossdk.io/math.Int)."
const mDec = "(cosmossdk.io/math.LegacyDec)."
const sdkT = "github.com/cosmos/cosmos-sdk/types."

// nn emits the obligation that a math.Int / LegacyDec operand is not the nil zero value.
func (x *X) nn(s *State, vs ...Val) {
	for _, v := range vs {
		if sc, ok := v.(Sc); ok && sc.Nil != "" && sc.Nil != "false" {
			x.emit(s, "nopanic", "nopanic.nilint@"+x.site(s), nil, sNot(sc.Nil), "method call on a zero-value math.Int/LegacyDec (nil big.Int)")
			s.assume(sNot(sc.Nil))
		}
	}
}

func iv(t string) Val { return Sc{T: t, Sort: "Int"} }
func bv(t string) Val { return Sc{T: t, Sort: "Bool"} }

func init() {
	bin := func(name string, op string, ret func(string) Val) {
		pure(name, func(x *X, s *State, a []Val) Val {
			x.nn(s, a[0], a[1])
			return ret(sApp(op, tm(a[0]), tm(a[1])))
		})
	}
	un := func(name string, f func(string) string, ret func(string) Val) {
		pure(name, func(x *X, s *State, a []Val) Val {
			x.nn(s, a[0])
			return ret(f(tm(a[0])))
		})
	}
	// ---- math.Int
	bin(mInt+"Add", "+", iv)
	bin(mInt+"Sub", "-", iv)
	bin(mInt+"Mul", "*", iv)
	bin(mInt+"GT", ">", bv)
	bin(mInt+"GTE", ">=", bv)
	bin(mInt+"LT", "<", bv)
	bin(mInt+"LTE", "<=", bv)
	bin(mInt+"Equal", "=", bv)
	un(mInt+"IsZero", func(a string) string { return sEq(a, "0") }, bv)
	un(mInt+"IsPositive", func(a string) string { return sApp(">", a, "0") }, bv)
	un(mInt+"IsNegative", func(a string) string { return sApp("<", a, "0") }, bv)
	un(mInt+"IsNil", func(a string) string { return "false" }, bv)
	externs[mInt+"IsNil"] = func(x *X, s *State, c *ssa.CallCommon, a []Val, call ssa.Value) (Val, bool) {
		sc := a[0].(Sc)
		if sc.Nil == "" {
			return bv("false"), true
		}
		return bv(sc.Nil), true
	}
	pure(mInt+"String", func(x *X, s *State, a []Val) Val { return Sc{T: sApp("sprintI", tm(a[0])), Sort: "Str"} })
	pure("cosmossdk.io/math.ZeroInt", func(x *X, s *State, a []Val) Val { return iv("0") })
	pure("cosmossdk.io/math.OneInt", func(x *X, s *State, a []Val) Val { return iv("1") })
	pure("cosmossdk.io/math.NewInt", func(x *X, s *State, a []Val) Val { return iv(tm(a[0])) })
	pure("cosmossdk.io/math.NewIntFromUint64", func(x *X, s *State, a []Val) Val { return iv(tm(a[0])) })
	pure("cosmossdk.io/math.MinInt", func(x *X, s *State, a []Val) Val {
		x.nn(s, a[0], a[1])
		return iv(sApp("min2", tm(a[0]), tm(a[1])))
	})
	pure("cosmossdk.io/math.MaxInt", func(x *X, s *State, a []Val) Val {
		x.nn(s, a[0], a[1])
		return iv(sApp("max2", tm(a[0]), tm(a[1])))
	})
	externs[mInt+"Quo"] = func(x *X, s *State, c *ssa.CallCommon, a []Val, call ssa.Value) (Val, bool) {
		x.nn(s, a[0], a[1])
		x.emit(s, "nopanic", "nopanic.divzero@"+x.site(s), nil, sNot(sEq(tm(a[1]), "0")), "Int.Quo by zero")
		return iv(sApp("tdiv", tm(a[0]), tm(a[1]))), true
	}
	// ---- math.LegacyDec (raw 10^18-scaled integers)
	bin(mDec+"Add", "+", iv)
	bin(mDec+"Sub", "-", iv)
	// x*S times y chops exactly to x*y (no rounding): algebraic simplification at term construction
	exact := func(op string) {
		pure(mDec+op[0:0]+map[string]string{"decMul": "Mul", "decMulTrunc": "MulTruncate"}[op], func(x *X, s *State, a []Val) Val {
			x.nn(s, a[0], a[1])
			l, r := tm(a[0]), tm(a[1])
			for _, pr := range [][2]string{{l, r}, {r, l}} {
				if strings.HasPrefix(pr[0], "(* ") && strings.HasSuffix(pr[0], " S)") {
					inner := pr[0][3 : len(pr[0])-3]
					if balanced(inner) {
						return iv(sApp("*", inner, pr[1]))
					}
				}
			}
			return iv(sApp(op, l, r))
		})
	}
	exact("decMul")
	exact("decMulTrunc")
	bin(mDec+"MulInt", "*", iv)
	bin(mDec+"GT", ">", bv)
	bin(mDec+"GTE", ">=", bv)
	bin(mDec+"LT", "<", bv)
	bin(mDec+"LTE", "<=", bv)
	bin(mDec+"Equal", "=", bv)
	un(mDec+"IsZero", func(a string) string { return sEq(a, "0") }, bv)
	un(mDec+"IsPositive", func(a string) string { return sApp(">", a, "0") }, bv)
	un(mDec+"IsNegative", func(a string) string { return sApp("<", a, "0") }, bv)
	un(mDec+"Ceil", func(a string) string { return sApp("decCeil", a) }, iv)
	// TruncateInt with two machine-checked simplifications (lemmas quo-trunc-is-floor and ceil-trunc-is-ceildiv of
	// 00_spec.spec, discharged by every C04 run): floor(floor(a*S^3/X)/S)/S = floor(a*S/X) and trunc(ceil(t)) = ceil(t/S)
	un(mDec+"TruncateInt", func(a string) string {
		orig := sApp("decTruncInt", a)
		if e, err := parseSx(a); err == nil && !e.isAtom() && len(e.kids) == 3 && e.kids[0].atom == "decQuoTrunc" {
			n, X := e.kids[1].String(), e.kids[2].String()
			if strings.HasPrefix(n, "(* ") && strings.HasSuffix(n, " S)") {
				return sIte("(and (>= "+n+" 0) (> "+X+" 0))", sApp("div", n, X), orig)
			}
		}
		if e, err := parseSx(a); err == nil && !e.isAtom() && len(e.kids) == 2 && e.kids[0].atom == "decCeil" {
			t := e.kids[1].String()
			return sIte("(>= "+t+" 0)", sApp("ceilDiv", t, "S"), orig)
		}
		return orig
	}, iv)
	un(mDec+"String", func(a string) string { return sApp("DecString", a) }, func(t string) Val { return Sc{T: t, Sort: "Str"} })
	externs[mDec+"IsNil"] = externs[mInt+"IsNil"]
	for _, q := range [][2]string{{"Quo", "decQuo"}, {"QuoTruncate", "decQuoTrunc"}} {
		q := q
		externs[mDec+q[0]] = func(x *X, s *State, c *ssa.CallCommon, a []Val, call ssa.Value) (Val, bool) {
			x.nn(s, a[0], a[1])
			x.emit(s, "nopanic", "nopanic.divzero@"+x.site(s), nil, sNot(sEq(tm(a[1]), "0")), "LegacyDec."+q[0]+" by zero")
			return iv(sApp(q[1], tm(a[0]), tm(a[1]))), true
		}
		pureExterns[mDec+q[0]] = true
	}
	pure("cosmossdk.io/math.LegacyZeroDec", func(x *X, s *State, a []Val) Val { return iv("0") })
	pure("cosmossdk.io/math.LegacyOneDec", func(x *X, s *State, a []Val) Val { return iv("S") })
	pure("cosmossdk.io/math.LegacyNewDec", func(x *X, s *State, a []Val) Val { return iv(sApp("*", tm(a[0]), "S")) })
	pure("cosmossdk.io/math.LegacyNewDecFromInt", func(x *X, s *State, a []Val) Val {
		x.nn(s, a[0])
		return iv(sApp("*", tm(a[0]), "S"))
	})
	pure("cosmossdk.io/math.LegacyMustNewDecFromStr", func(x *X, s *State, a []Val) Val {
		// partial inverse of String(); a string that is not a decimal panics: obligation that it is DecString of something
		t := tm(a[0])
		x.emit(s, "nopanic", "nopanic.decparse@"+x.site(s), nil, sEq(sApp("DecString", sApp("DecParse", t)), t), "LegacyMustNewDecFromStr of a string that is not a decimal")
		return iv(sApp("DecParse", t))
	})
	// ---- sdk.Coin / sdk.Coins
	pure(sdkT+"NewCoin", nil)
	externs[sdkT+"NewCoin"] = func(x *X, s *State, c *ssa.CallCommon, a []Val, call ssa.Value) (Val, bool) {
		x.nn(s, a[1])
		x.emit(s, "nopanic", "nopanic.newcoin.negative@"+x.site(s), nil, sApp(">=", tm(a[1]), "0"), "sdk.NewCoin with a negative amount")
		x.emit(s, "nopanic", "nopanic.newcoin.denom@"+x.site(s), nil, sApp("validDenom", tm(a[0])), "sdk.NewCoin with an invalid denomination")
		s.assume(sApp(">=", tm(a[1]), "0"))
		return St{map[string]Val{"Denom": a[0], "Amount": iv(tm(a[1]))}}, true
	}
	pure(sdkT+"NewInt64Coin", nil)
	externs[sdkT+"NewInt64Coin"] = externs[sdkT+"NewCoin"]
	coinF := func(v Val, f string) string { return tm(v.(St).F[f]) }
	pure("("+sdkT+"Coin).IsPositive", func(x *X, s *State, a []Val) Val { return bv(sApp(">", coinF(a[0], "Amount"), "0")) })
	pure("("+sdkT+"Coin).IsZero", func(x *X, s *State, a []Val) Val { return bv(sEq(coinF(a[0], "Amount"), "0")) })
	pure("("+sdkT+"Coin).IsNegative", func(x *X, s *State, a []Val) Val { return bv(sApp("<", coinF(a[0], "Amount"), "0")) })
	pure("("+sdkT+"Coin).String", func(x *X, s *State, a []Val) Val {
		return Sc{T: sApp("sprint2", coinF(a[0], "Amount"), coinF(a[0], "Denom")), Sort: "Str"}
	})
	externs["("+sdkT+"Coin).Validate"] = func(x *X, s *State, c *ssa.CallCommon, a []Val, call ssa.Value) (Val, bool) {
		am := a[0].(St).F["Amount"].(Sc)
		nilT := "false"
		if am.Nil != "" {
			nilT = am.Nil
		}
		okT := sAnd(sApp("validDenom", coinF(a[0], "Denom")), sNot(nilT), sApp(">=", am.T, "0"))
		return Er{okT, "901"}, true
	}
	pureExterns["("+sdkT+"Coin).Validate"] = true
	cmp := func(name, op string) {
		externs["("+sdkT+"Coin)."+name] = func(x *X, s *State, c *ssa.CallCommon, a []Val, call ssa.Value) (Val, bool) {
			x.emit(s, "nopanic", "nopanic.coin.denom-mismatch@"+x.site(s), nil, sEq(coinF(a[0], "Denom"), coinF(a[1], "Denom")), "Coin."+name+" with different denominations")
			return bv(sApp(op, coinF(a[0], "Amount"), coinF(a[1], "Amount"))), true
		}
		pureExterns["("+sdkT+"Coin)."+name] = true
	}
	cmp("IsLT", "<")
	cmp("IsGTE", ">=")
	cmp("IsLTE", "<=")
	cmp("IsGT", ">")
	externs["("+sdkT+"Coin).Sub"] = func(x *X, s *State, c *ssa.CallCommon, a []Val, call ssa.Value) (Val, bool) {
		x.emit(s, "nopanic", "nopanic.coin.denom-mismatch@"+x.site(s), nil, sEq(coinF(a[0], "Denom"), coinF(a[1], "Denom")), "Coin.Sub with different denominations")
		r := sApp("-", coinF(a[0], "Amount"), coinF(a[1], "Amount"))
		x.emit(s, "nopanic", "nopanic.coin.negative@"+x.site(s), nil, sApp(">=", r, "0"), "Coin.Sub below zero")
		s.assume(sApp(">=", r, "0"))
		return St{map[string]Val{"Denom": a[0].(St).F["Denom"], "Amount": iv(r)}}, true
	}
	pureExterns["("+sdkT+"Coin).Sub"] = true
	externs["("+sdkT+"Coin).SubAmount"] = func(x *X, s *State, c *ssa.CallCommon, a []Val, call ssa.Value) (Val, bool) {
		x.nn(s, a[1])
		r := sApp("-", coinF(a[0], "Amount"), tm(a[1]))
		x.emit(s, "nopanic", "nopanic.coin.negative@"+x.site(s), nil, sApp(">=", r, "0"), "Coin.SubAmount below zero")
		s.assume(sApp(">=", r, "0"))
		return St{map[string]Val{"Denom": a[0].(St).F["Denom"], "Amount": iv(r)}}, true
	}
	pureExterns["("+sdkT+"Coin).SubAmount"] = true
	externs["("+sdkT+"Coin).Add"] = func(x *X, s *State, c *ssa.CallCommon, a []Val, call ssa.Value) (Val, bool) {
		x.emit(s, "nopanic", "nopanic.coin.denom-mismatch@"+x.site(s), nil, sEq(coinF(a[0], "Denom"), coinF(a[1], "Denom")), "Coin.Add with different denominations")
		return St{map[string]Val{"Denom": a[0].(St).F["Denom"], "Amount": iv(sApp("+", coinF(a[0], "Amount"), coinF(a[1], "Amount")))}}, true
	}
	pureExterns["("+sdkT+"Coin).Add"] = true
	// NewCoins(coins...): Coins as denom -> amount (zero coins vanish, duplicates panic: single-coin calls only)
	externs[sdkT+"NewCoins"] = func(x *X, s *State, c *ssa.CallCommon, a []Val, call ssa.Value) (Val, bool) {
		sl, ok := a[0].(Sl)
		if !ok {
			x.fail("NewCoins argument %T", a[0])
		}
		switch sl.Len {
		case "0":
			return Sc{T: "noCoins", Sort: "Coins"}, true
		case "1":
			coin := selV(x.flat(s, x.slElem(s, sl)), "0").(St)
			x.emit(s, "nopanic", "nopanic.newcoins.negative@"+x.site(s), nil, sApp(">=", tm(coin.F["Amount"]), "0"), "sdk.NewCoins with a negative coin")
			return Sc{T: sStore("noCoins", tm(coin.F["Denom"]), tm(coin.F["Amount"])), Sort: "Coins"}, true
		}
		x.fail("NewCoins with %s coins", sl.Len)
		return nil, false
	}
	pureExterns[sdkT+"NewCoins"] = true
	pure("("+sdkT+"Coins).AmountOf", func(x *X, s *State, a []Val) Val { return iv(sSel(tm(a[0]), tm(a[1]))) })
	pure("("+sdkT+"Coins).IsZero", func(x *X, s *State, a []Val) Val {
		d := x.bound("d", "Str")
		return bv(fmt.Sprintf("(forall ((%s Str)) (= (select %s %s) 0))", d, tm(a[0]), d))
	})
	externs["("+sdkT+"Coins).Add"] = func(x *X, s *State, c *ssa.CallCommon, a []Val, call ssa.Value) (Val, bool) {
		// pointwise sum, as a fresh array with a defining axiom
		r := x.sym("coins.add", "(Array Str Int)")
		d := x.bound("d", "Str")
		other := "noCoins"
		switch o := a[1].(type) {
		case Sl:
			if o.Len == "0" {
				return a[0], true
			}
			el := x.flat(s, x.slElem(s, o)).(St)
			// sum over the (symbolic-length) coin list is not modelled: only lists built from one Coins value
			_ = el
			x.fail("Coins.Add of a coin list of length %s", o.Len)
		case Sc:
			other = o.T
		}
		s.assume(fmt.Sprintf("(forall ((%s Str)) (! (= (select %s %s) (+ (select %s %s) (select %s %s))) :pattern ((select %s %s))))", d, r, d, tm(a[0]), d, other, d, r, d))
		return Sc{T: r, Sort: "Coins"}, true
	}
	pure("("+sdkT+"Coins).String", func(x *X, s *State, a []Val) Val { return Sc{T: x.sym("coins.str", "Str"), Sort: "Str"} })
	externs["("+sdkT+"Coins).Validate"] = func(x *X, s *State, c *ssa.CallCommon, a []Val, call ssa.Value) (Val, bool) {
		d := x.bound("d", "Str")
		okT := fmt.Sprintf("(forall ((%s Str)) (and (>= (select %s %s) 0) (=> (> (select %s %s) 0) (validDenom %s))))", d, tm(a[0]), d, tm(a[0]), d, d)
		return Er{okT, "902"}, true
	}
	pureExterns["("+sdkT+"Coins).Validate"] = true
	externs[sdkT+"ValidateDenom"] = func(x *X, s *State, c *ssa.CallCommon, a []Val, call ssa.Value) (Val, bool) {
		return Er{sApp("validDenom", tm(a[0])), "903"}, true
	}
	pureExterns[sdkT+"ValidateDenom"] = true
	// ---- addresses
	externs[sdkT+"AccAddressFromBech32"] = func(x *X, s *State, c *ssa.CallCommon, a []Val, call ssa.Value) (Val, bool) {
		t := tm(a[0])
		return Tuple{Sc{T: sApp("addrOf", t), Sort: "Addr"}, Er{sApp("validAddr", t), "904"}}, true
	}
	pureExterns[sdkT+"AccAddressFromBech32"] = true
	pure("("+sdkT+"AccAddress).String", func(x *X, s *State, a []Val) Val { return Sc{T: sApp("strOf", tm(a[0])), Sort: "Str"} })
	pure("("+sdkT+"AccAddress).Equals", func(x *X, s *State, a []Val) Val {
		if o, ok := a[1].(Iface); ok {
			return bv(sEq(tm(a[0]), tm(o.V)))
		}
		return bv(sEq(tm(a[0]), tm(a[1])))
	})
	pure("("+sdkT+"AccAddress).Empty", func(x *X, s *State, a []Val) Val { return bv(sEq(tm(a[0]), "nilAddr")) })
	// ---- time
	pure("(time.Time).After", func(x *X, s *State, a []Val) Val { return bv(sApp(">", tm(a[0]), tm(a[1]))) })
	pure("(time.Time).Before", func(x *X, s *State, a []Val) Val { return bv(sApp("<", tm(a[0]), tm(a[1]))) })
	pure("(time.Time).Equal", func(x *X, s *State, a []Val) Val { return bv(sEq(tm(a[0]), tm(a[1]))) })
	pure("(time.Time).IsZero", func(x *X, s *State, a []Val) Val { return bv(sEq(tm(a[0]), "TIME_ZERO")) })
	pure("(time.Time).UnixNano", func(x *X, s *State, a []Val) Val { return a[0] }) // times are modelled as their Unix nanoseconds (A6)
	pure("(time.Time).String", func(x *X, s *State, a []Val) Val { return Sc{T: sApp("sprintI", tm(a[0])), Sort: "Str"} })
	pure("(time.Time).UTC", func(x *X, s *State, a []Val) Val { return a[0] })
	pure("(time.Time).AddDate", func(x *X, s *State, a []Val) Val {
		// assumption A6: UTC times, only the days argument is used by the module
		if tm(a[1]) != "0" || tm(a[2]) != "0" {
			x.fail("AddDate with years or months")
		}
		return iv(sApp("addDays", tm(a[0]), tm(a[3])))
	})
	pure("(time.Time).Add", func(x *X, s *State, a []Val) Val { return iv(sApp("+", tm(a[0]), tm(a[1]))) })
	pure("time.Now", func(x *X, s *State, a []Val) Val { return iv(x.sym("time.now", "Int")) })
	pure(modTypes+".MustParseRFC3339", func(x *X, s *State, a []Val) Val {
		lit := x.V.strName[tm(a[0])]
		if lit == "0001-01-01T00:00:00Z" {
			return iv("TIME_ZERO")
		}
		return iv(x.sym("time.parse", "Int"))
	})
	// ---- strconv / fmt
	pure("strconv.FormatUint", func(x *X, s *State, a []Val) Val { return Sc{T: sApp("sprintI", tm(a[0])), Sort: "Str"} })
	pure("strconv.FormatInt", func(x *X, s *State, a []Val) Val { return Sc{T: sApp("sprintI", tm(a[0])), Sort: "Str"} })
	externs["fmt.Sprint"] = func(x *X, s *State, c *ssa.CallCommon, a []Val, call ssa.Value) (Val, bool) {
		return x.sprint(s, a[0]), true
	}
	pureExterns["fmt.Sprint"] = true
	for _, n := range []string{"fmt.Sprintf", "fmt.Sprintln"} {
		pure(n, func(x *X, s *State, a []Val) Val { return Sc{T: x.sym("fmt", "Str"), Sort: "Str"} })
	}
	pure("fmt.Println", func(x *X, s *State, a []Val) Val { return Tuple{Opq{"n"}, Er{"true", "0"}} })
	// ---- errors
	newErr := func(x *X, s *State, a []Val) Val { return Er{"false", fmt.Sprintf("%d", 2000+x.newID())} }
	pure("fmt.Errorf", newErr)
	pure("errors.New", newErr)
	pure("google.golang.org/grpc/status.Error", newErr)
	pure("google.golang.org/grpc/status.Errorf", newErr)
	wrap := func(x *X, s *State, a []Val) Val {
		switch e := a[0].(type) {
		case Er:
			return e
		case Ptr, Opq, Sc:
			return Er{"false", x.V.errKindOf(x, s, e, nil)}
		}
		x.fail("errors.Wrap of %T", a[0])
		return nil
	}
	pure("cosmossdk.io/errors.Wrap", wrap)
	pure("cosmossdk.io/errors.Wrapf", wrap)
	pure("(*cosmossdk.io/errors.Error).Wrap", wrap)
	pure("(*cosmossdk.io/errors.Error).Wrapf", wrap)
	pure("errors.Is", func(x *X, s *State, a []Val) Val {
		e, ok1 := a[0].(Er)
		t, ok2 := a[1].(Er)
		if !ok1 || !ok2 {
			x.fail("errors.Is on %T, %T", a[0], a[1])
		}
		return bv(sAnd(sNot(e.Nil), sNot(t.Nil), sEq(e.Kind, t.Kind)))
	})
	// ---- context
	externs[sdkT+"UnwrapSDKContext"] = func(x *X, s *State, c *ssa.CallCommon, a []Val, call ssa.Value) (Val, bool) {
		return Opq{"sdk.Context"}, true
	}
	pureExterns[sdkT+"UnwrapSDKContext"] = true
	externs["("+sdkT+"Context).BlockTime"] = func(x *X, s *State, c *ssa.CallCommon, a []Val, call ssa.Value) (Val, bool) {
		return s.ghost["BlockTime"], true
	}
	pureExterns["("+sdkT+"Context).BlockTime"] = true
	pure("("+sdkT+"Context).EventManager", func(x *X, s *State, a []Val) Val { return Opq{"EventManager"} })
	externs["(*"+sdkT+"EventManager).EmitEvents"] = func(x *X, s *State, c *ssa.CallCommon, a []Val, call ssa.Value) (Val, bool) {
		s.ghost["EventN"] = iv(sApp("+", tm(s.ghost["EventN"]), "1"))
		return Tuple{}, true
	}
	externs["(*"+sdkT+"EventManager).EmitEvent"] = externs["(*"+sdkT+"EventManager).EmitEvents"]
	externs["("+sdkT+"EventManagerI).EmitEvents"] = externs["(*"+sdkT+"EventManager).EmitEvents"]
	pure(sdkT+"NewEvent", func(x *X, s *State, a []Val) Val { return Opq{"Event"} })
	pure(sdkT+"NewAttribute", func(x *X, s *State, a []Val) Val { return Opq{"Attribute"} })
	pure("strconv.ParseBool", func(x *X, s *State, a []Val) Val {
		lit, ok := x.V.strName[tm(a[0])]
		if !ok {
			return Tuple{bv(x.sym("parsebool", "Bool")), Er{x.sym("parsebool.ok", "Bool"), "905"}}
		}
		switch lit {
		case "1", "t", "T", "TRUE", "true", "True":
			return Tuple{bv("true"), Er{"true", "0"}}
		case "0", "f", "F", "FALSE", "false", "False":
			return Tuple{bv("false"), Er{"true", "0"}}
		}
		return Tuple{bv("false"), Er{"false", "905"}}
	})
	// enum String methods
	for _, e := range []string{"AuctionStatus", "AuctionType", "BidType", "AddressType"} {
		pure("("+modTypes+"."+e+").String", func(x *X, s *State, a []Val) Val { return Sc{T: sApp("sprintI", tm(a[0])), Sort: "Str"} })
	}
	// bank type helpers
	const bankT = "github.com/cosmos/cosmos-sdk/x/bank/types."
	pure(bankT+"NewInput", func(x *X, s *State, a []Val) Val {
		return St{map[string]Val{"Address": Sc{T: sApp("strOf", tm(a[0])), Sort: "Str"}, "Coins": a[1]}}
	})
	pure(bankT+"NewOutput", func(x *X, s *State, a []Val) Val {
		return St{map[string]Val{"Address": Sc{T: sApp("strOf", tm(a[0])), Sort: "Str"}, "Coins": a[1]}}
	})
	// maps.Keys: the keys of a Go map in unspecified order -- a duplicate-free enumeration of the domain (the schema of a
	// range over a map, as a slice). keysPos(key) names the position of a key in the clauses of the function under contract.
	for _, nm := range []string{"golang.org/x/exp/maps.Keys", "maps.Keys"} {
		pure(nm, nil)
		externs[nm] = func(x *X, s *State, c *ssa.CallCommon, a []Val, call ssa.Value) (Val, bool) {
			mv, ok := a[0].(MapV)
			mt, isMap := c.Args[0].Type().Underlying().(*types.Map)
			if !ok || !isMap {
				x.fail("maps.Keys of %T", a[0])
			}
			ks := smtSort(scalarSort(mt.Key()))
			if ks == "" {
				x.fail("maps.Keys with key type %s", mt.Key())
			}
			id := x.newID()
			if mv.ID == 0 {
				s.arrs[id] = Sc{T: constArr(arrSort("Int", ks), ks, x.sym("nokey", ks)), Sort: arrSort("Int", ks)}
				return Sl{id, "0", nil}, true
			}
			m := s.maps[mv.ID]
			n := x.sym("keys.n", "Int")
			K := x.sym("keys.k", arrSort("Int", ks))
			pos := x.declFun("keys.pos", []string{ks}, "Int")
			j, k := x.bound("j", "Int"), x.bound("k", ks)
			s.assume(fmt.Sprintf("(and (<= 0 %s) (< %s 281474976710656))", n, n))
			s.assume(fmt.Sprintf("(forall ((%s Int)) (! (=> (and (<= 0 %s) (< %s %s)) (and (select %s (select %s %s)) (= (%s (select %s %s)) %s))) :pattern ((select %s %s))))",
				j, j, j, n, m.Dom, K, j, pos, K, j, j, K, j))
			s.assume(fmt.Sprintf("(forall ((%s %s)) (! (=> (select %s %s) (and (<= 0 (%s %s)) (< (%s %s) %s) (= (select %s (%s %s)) %s))) :pattern ((%s %s))))",
				k, ks, m.Dom, k, pos, k, pos, k, n, K, pos, k, k, pos, k))
			s.arrs[id] = Sc{T: K, Sort: arrSort("Int", ks)}
			s.lets["keysPos"] = Opq{"fn:" + pos}
			s.lets["keysN"] = iv(n)
			return Sl{id, n, nil}, true
		}
	}
	pure("sort.Strings", nil)
	externs["sort.Strings"] = func(x *X, s *State, c *ssa.CallCommon, a []Val, call ssa.Value) (Val, bool) {
		return x.sortStrings(s, a[0], c.Args[0]), true
	}
	// slices.Sort on a []string is the same in-place permutation (the model says nothing about the order itself)
	pure("slices.Sort", nil)
	externs["slices.Sort"] = func(x *X, s *State, c *ssa.CallCommon, a []Val, call ssa.Value) (Val, bool) {
		if st, ok := c.Args[0].Type().Underlying().(*types.Slice); !ok || scalarSort(st.Elem()) != "Str" {
			x.fail("slices.Sort on %s", c.Args[0].Type())
		}
		return x.sortStrings(s, a[0], c.Args[0]), true
	}
}

// sprint models fmt.Sprint of a short, statically known argument list as an injective function of the arguments.
func (x *X) sprint(s *State, v Val) Val {
	sl, ok := v.(Sl)
	if !ok {
		x.fail("fmt.Sprint argument %T", v)
	}
	var n int
	if _, err := fmt.Sscan(sl.Len, &n); err != nil {
		x.fail("fmt.Sprint with a symbolic number of arguments")
	}
	// the elements are interface values stored in the literal's array object: recover them from the store terms
	el := x.slElem(s, sl)
	ifs, ok := el.(IfaceArr)
	if !ok {
		x.fail("fmt.Sprint arguments are not a literal list")
	}
	var parts []Sc
	for i := 0; i < n; i++ {
		iv, ok := ifs.E[i].V.(Sc)
		if !ok {
			x.fail("fmt.Sprint of a non-scalar")
		}
		parts = append(parts, iv)
	}
	sig := ""
	for _, p := range parts {
		sig += p.Sort[:1]
	}
	switch sig {
	case "I":
		return Sc{T: sApp("sprintI", parts[0].T), Sort: "Str"}
	case "ISS": // number, separator literal, string
		return Sc{T: sApp("sprint2", parts[0].T, parts[2].T), Sort: "Str"}
	case "ISI":
		return Sc{T: sApp("sprintII", parts[0].T, parts[2].T), Sort: "Str"}
	}
	x.fail("fmt.Sprint argument pattern %s", sig)
	return nil
}

// IfaceArr is the content of a literal []interface{} (variadic fmt arguments).
type IfaceArr struct{ E map[int]Iface }

// sortStrings: sort.Strings permutes the slice in place. The model keeps exactly that: the new content is the old one
// under a bijection of the index range (the order itself is not modelled: strings are abstract; that the result does not
// depend on the previous order is the business of the C14 scan).
func (x *X) sortStrings(s *State, v Val, arg ssa.Value) Val {
	sl, ok := v.(Sl)
	if !ok {
		x.fail("sort.Strings on %T", v)
	}
	old, ok := x.flat(s, x.slElem(s, sl)).(Sc)
	if !ok {
		x.fail("sort.Strings: element representation %T", x.slElem(s, sl))
	}
	nw := x.sym("sorted.e", old.Sort)
	perm := x.declFun("sorted.perm", []string{"Int"}, "Int")
	inv := x.declFun("sorted.inv", []string{"Int"}, "Int")
	j, k := x.bound("j", "Int"), x.bound("k", "Int")
	n := sl.Len
	s.assume(fmt.Sprintf("(forall ((%s Int)) (! (=> (and (<= 0 %s) (< %s %s)) (and (<= 0 (%s %s)) (< (%s %s) %s) (= (select %s %s) (select %s (%s %s))) (= (%s (%s %s)) %s))) :pattern ((select %s %s))))",
		j, j, j, n, perm, j, perm, j, n, nw, j, old.T, perm, j, inv, perm, j, j, nw, j))
	s.assume(fmt.Sprintf("(forall ((%s Int)) (! (=> (and (<= 0 %s) (< %s %s)) (and (<= 0 (%s %s)) (< (%s %s) %s) (= (%s (%s %s)) %s) (= (select %s (%s %s)) (select %s %s)))) :pattern ((%s %s))))",
		k, k, k, n, inv, k, inv, k, n, perm, inv, k, k, nw, inv, k, old.T, k, inv, k))
	if sl.ID != 0 {
		s.arrs[sl.ID] = Sc{T: nw, Sort: old.Sort}
	} else {
		// a slice value without a shared backing store in the model: the variable itself now denotes the sorted content
		// (sound as long as no other variable aliases the array; the function under contract is checked for that: the
		// argument must be a local that was only appended to)
		s.top().env[arg] = Sl{0, sl.Len, Sc{T: nw, Sort: old.Sort}}
	}
	s.lets["sortedInv"] = Opq{"fn:" + inv}
	return Tuple{}
}

func isIfaceSlice(t types.Type) bool {
	sl, ok := t.Underlying().(*types.Slice)
	if !ok {
		return false
	}
	_, isI := sl.Elem().Underlying().(*types.Interface)
	return isI && !isErrorType(sl.Elem()) && !strings.Contains(sl.Elem().String(), "fundraising")
}

func init() {
	// Escrow address derivation (types.SellingReserveAddress etc. -> address.Module hash): assumed injective in
	// (role, auction id) and disjoint from user addresses (assumption A4); modelled by sellEsc/payEsc/vestEsc.
	for fn, esc := range map[string]string{"SellingReserveAddress": "sellEsc", "PayingReserveAddress": "payEsc", "VestingReserveAddress": "vestEsc"} {
		esc := esc
		pure(modTypes+"."+fn, func(x *X, s *State, a []Val) Val { return Sc{T: sApp(esc, tm(a[0])), Sort: "Addr"} })
	}
}

func init() {
	// further cosmossdk.io/math methods, so that a change that switches to one of them is judged by its meaning
	un := func(name string, f func(string) string, ret func(string) Val) {
		pure(name, func(x *X, s *State, a []Val) Val {
			x.nn(s, a[0])
			return ret(f(tm(a[0])))
		})
	}
	bin := func(name string, f func(a, b string) string, ret func(string) Val) {
		pure(name, func(x *X, s *State, a []Val) Val {
			x.nn(s, a[0], a[1])
			return ret(f(tm(a[0]), tm(a[1])))
		})
	}
	un(mDec+"RoundInt", func(a string) string { return sApp("chopRound", a) }, iv)
	un(mDec+"TruncateDec", func(a string) string { return sApp("*", sApp("tdiv", a, "S"), "S") }, iv)
	un(mDec+"Neg", func(a string) string { return "(- " + a + ")" }, iv)
	un(mDec+"Abs", func(a string) string { return sApp("absI", a) }, iv)
	un(mDec+"IsInteger", func(a string) string { return sEq(sApp("trem", a, "S"), "0") }, bv)
	un(mDec+"TruncateInt64", func(a string) string { return sApp("tdiv", a, "S") }, iv)
	un(mDec+"RoundInt64", func(a string) string { return sApp("chopRound", a) }, iv)
	bin(mDec+"MulInt64", func(a, b string) string { return sApp("*", a, b) }, iv)
	bin(mDec+"MulRoundUp", func(a, b string) string { return sApp("ceilDiv", sApp("*", a, b), "S") }, iv)
	bin(mDec+"NotEqual", func(a, b string) string { return sNot(sEq(a, b)) }, bv)
	for _, q := range []string{"QuoInt", "QuoInt64"} {
		q := q
		externs[mDec+q] = func(x *X, s *State, c *ssa.CallCommon, a []Val, call ssa.Value) (Val, bool) {
			x.nn(s, a[0], a[1])
			x.emit(s, "nopanic", "nopanic.divzero@"+x.site(s), nil, sNot(sEq(tm(a[1]), "0")), "LegacyDec."+q+" by zero")
			return iv(sApp("tdiv", tm(a[0]), tm(a[1]))), true
		}
		pureExterns[mDec+q] = true
	}
	externs[mDec+"QuoRoundUp"] = func(x *X, s *State, c *ssa.CallCommon, a []Val, call ssa.Value) (Val, bool) {
		x.nn(s, a[0], a[1])
		x.emit(s, "nopanic", "nopanic.divzero@"+x.site(s), nil, sNot(sEq(tm(a[1]), "0")), "LegacyDec.QuoRoundUp by zero")
		q := sApp("tdiv", sApp("*", tm(a[0]), "S", "S"), tm(a[1]))
		return iv(sIte(sApp(">=", q, "0"), sApp("ceilDiv", q, "S"), sApp("tdiv", q, "S"))), true
	}
	pureExterns[mDec+"QuoRoundUp"] = true
	un(mInt+"Neg", func(a string) string { return "(- " + a + ")" }, iv)
	un(mInt+"Abs", func(a string) string { return sApp("absI", a) }, iv)
	un(mInt+"ToLegacyDec", func(a string) string { return sApp("*", a, "S") }, iv)
	un(mInt+"Int64", func(a string) string { return a }, iv)
	un(mInt+"Uint64", func(a string) string { return a }, iv)
	un(mInt+"IsInt64", func(a string) string {
		return "(and (<= (- 9223372036854775808) " + a + ") (< " + a + " 9223372036854775808))"
	}, bv)
	un(mInt+"Sign", func(a string) string { return sIte(sApp(">", a, "0"), "1", sIte(sApp("<", a, "0"), "(- 1)", "0")) }, iv)
	for n, op := range map[string]string{"AddRaw": "+", "SubRaw": "-", "MulRaw": "*"} {
		op := op
		bin(mInt+n, func(a, b string) string { return sApp(op, a, b) }, iv)
	}
	bin(mInt+"NotEqual", func(a, b string) string { return sNot(sEq(a, b)) }, bv)
	for _, q := range []string{"QuoRaw", "Mod", "ModRaw"} {
		q := q
		externs[mInt+q] = func(x *X, s *State, c *ssa.CallCommon, a []Val, call ssa.Value) (Val, bool) {
			x.nn(s, a[0], a[1])
			x.emit(s, "nopanic", "nopanic.divzero@"+x.site(s), nil, sNot(sEq(tm(a[1]), "0")), "Int."+q+" by zero")
			if q == "QuoRaw" {
				return iv(sApp("tdiv", tm(a[0]), tm(a[1]))), true
			}
			return iv(sApp("trem", tm(a[0]), tm(a[1]))), true
		}
		pureExterns[mInt+q] = true
	}
	pure("cosmossdk.io/math.NewIntFromInt64", func(x *X, s *State, a []Val) Val { return iv(tm(a[0])) })
	pure("cosmossdk.io/math.LegacyNewDecWithPrec", func(x *X, s *State, a []Val) Val {
		return iv(x.sym("decWithPrec", "Int"))
	})
	pure("cosmossdk.io/math.LegacyMinDec", func(x *X, s *State, a []Val) Val { x.nn(s, a[0], a[1]); return iv(sApp("min2", tm(a[0]), tm(a[1]))) })
	pure("cosmossdk.io/math.LegacyMaxDec", func(x *X, s *State, a []Val) Val { x.nn(s, a[0], a[1]); return iv(sApp("max2", tm(a[0]), tm(a[1]))) })
	// Coins helpers
	pure("("+sdkT+"Coins).Empty", func(x *X, s *State, a []Val) Val {
		d := x.bound("d", "Str")
		return bv(fmt.Sprintf("(forall ((%s Str)) (= (select %s %s) 0))", d, tm(a[0]), d))
	})
	pure("("+sdkT+"Coins).IsAllPositive", func(x *X, s *State, a []Val) Val {
		return bv(x.sym("coins.allpositive", "Bool"))
	})
	pure("("+sdkT+"Coin).Equal", func(x *X, s *State, a []Val) Val {
		o := a[1]
		if iv, ok := o.(Iface); ok {
			o = iv.V
		}
		return bv(x.eqV(a[0], o))
	})
	pure("("+sdkT+"Coin).IsEqual", func(x *X, s *State, a []Val) Val { return bv(x.eqV(a[0], a[1])) })
	pure("("+sdkT+"Coin).GetDenom", func(x *X, s *State, a []Val) Val { return a[0].(St).F["Denom"] })
	externs["("+sdkT+"Coin).AddAmount"] = func(x *X, s *State, c *ssa.CallCommon, a []Val, call ssa.Value) (Val, bool) {
		x.nn(s, a[1])
		return St{map[string]Val{"Denom": a[0].(St).F["Denom"], "Amount": iv(sApp("+", tm(a[0].(St).F["Amount"]), tm(a[1])))}}, true
	}
	pureExterns["("+sdkT+"Coin).AddAmount"] = true
}

func init() {
	// codectypes.Any holding an AuctionI is modelled as the auction's union record (Kind 0 = nil / unpackable)
	externs["github.com/cosmos/cosmos-sdk/codec/types.NewAnyWithValue"] = func(x *X, s *State, c *ssa.CallCommon, a []Val, call ssa.Value) (Val, bool) {
		iv, ok := a[0].(Iface)
		if !ok || iv.Kind == "" {
			x.fail("NewAnyWithValue of %T", a[0])
		}
		rec := x.flat(s, iv)
		return Tuple{rec, Er{sNot(sEq(iv.Kind, "0")), "906"}}, true
	}
	pureExterns["github.com/cosmos/cosmos-sdk/codec/types.NewAnyWithValue"] = true
	externs[modTypes+".UnpackAuction"] = func(x *X, s *State, c *ssa.CallCommon, a []Val, call ssa.Value) (Val, bool) {
		rec, ok := a[0].(St)
		if !ok {
			x.fail("UnpackAuction of %T", a[0])
		}
		k := tm(rec.F["Kind"])
		okT := sOr(sEq(k, "1"), sEq(k, "2"))
		return Tuple{x.auctionFromRecord(s, rec, sIte(okT, k, "0")), Er{okT, "907"}}, true
	}
	pureExterns[modTypes+".UnpackAuction"] = true
}
