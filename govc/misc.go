package main

import "fmt"

var notDecided = map[string][]string{}

func assumptionsFor(prop string) []string {
	return []string{
		"A1 baseapp discards the state changes of a failed message (cache-wrapped store)",
		"A2 third parties only ever add coins to escrow addresses",
		"A3 big-integer arithmetic is mathematical: 256-bit Int / 315-bit LegacyDec overflow panics are not modelled",
		"A4 escrow address derivation is injective in (role, auction id) and disjoint from user addresses",
		"A5 hook listeners do not re-enter the fundraising keeper or move escrow funds",
		"A6 time.Time values are UTC instants (Unix nanoseconds); AddDate(0,0,d) adds d*24h",
		"A7 x/bank, x/distribution, collections and the codec behave as the extern models say",
		"A8 one Keeper value per store; collection handles are the Keeper's fields",
		"A9 go/ssa is a faithful translation of the Go source",
		"A10 induction over histories: every entry point preserves Inv (meta-argument in DESIGN.md section 4.3)",
		"A11 slices and maps hold fewer than 2^48 elements",
	}
}

// runLemmas discharges the spec-level lemmas labelled with the property (closed formulas, no path condition).
func (V *Verifier) runLemmas(prop, scratch string) []*Oblig {
	var out []*Oblig
	for _, l := range V.cs.Lemmas {
		has := false
		for _, p := range l.Labels {
			if p == prop {
				has = true
			}
		}
		if !has {
			continue
		}
		x := &X{V: V, key: "lemma", inlined: map[string]bool{}, externs: map[string]bool{}, assumed: map[string]bool{}, callCnt: map[string]int{}, nameCnt: map[string]int{},
			opqNils: map[string]string{}, walkIdx: nil, sorts: map[string]string{}, sums: map[string]*SumFn{}}
		s := &State{objs: map[int]Val{}, arrs: map[int]Val{}, maps: map[int]MapS{}, ghost: map[string]Val{}, iters: nil, lets: map[string]Val{}}
		ev := &Ev{x: x, cur: s, now: s, old: s, scope: []map[string]Val{{}}, pkg: V.typesPkg(), where: l.File}
		var goal string
		func() {
			defer func() {
				if r := recover(); r != nil {
					goal = ""
					if u, ok := r.(unsupported); ok {
						out = append(out, &Oblig{Name: "lemma#" + l.Name, Fn: "lemma", Kind: "lemma", Labels: l.Labels, Status: "error", Detail: u.msg, Clause: l.Text})
						return
					}
					panic(r)
				}
			}()
			goal = tm(ev.eval(l.Expr))
		}()
		if goal == "" {
			continue
		}
		o := &Oblig{Name: "lemma#" + l.Name, Fn: "lemma", Kind: "lemma", Labels: l.Labels, Goal: goal, Clause: l.Text, Decls: x.decls}
		V.discharge(o, x.sums, scratch)
		out = append(out, o)
	}
	return out
}

func cmdSelftest(V *Verifier, pos []string, verbose bool) int {
	fmt.Println("selftest: use /verif/selftest/run.sh")
	return 0
}
