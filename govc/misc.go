package main

import "fmt"

// sentences of the property statements that no obligation decides (DESIGN.md section 10)
var notDecided = map[string][]string{
	"C02": {"coins sent to an escrow address by third parties (excluded by the statement, A2)"},
	"C03": {"that the order book built by types.BidsByPrice is a regrouping of the stored bids (assumed contract, BOUNDED conformance test)", "refunds of a batch settlement are non-negative (trusted-ensures of CalculateBatchAllocation; BOUNDED conformance test under C01/C04)"},
	"C01": {"coins sent to an escrow address by third parties (excluded by the statement, A2)", "refunds of a batch settlement are non-negative (trusted-ensures of CalculateBatchAllocation, BOUNDED conformance test)"},
	"C04": {"refunds of a batch settlement are non-negative, i.e. nobody pays more than they reserved (trusted-ensures of CalculateBatchAllocation, BOUNDED conformance test)"},
	"C07": {"extreme prices or amounts beyond mathematical integers: 256/315-bit overflow panics of cosmossdk.io/math (A3) -- observed on the real code: a worth bid of 10^59 paying coins against a candidate price of 10^-18 makes types.Match, and so BeginBlocker, panic with 'Int overflow' (DESIGN.md section 13 item 33)"},
	"C13": {"the exact-rational reading of the extension rule inside the 10^-18 rounding band; the rule is proved as the code computes it"},
	"C14": {"determinism of the SDK, CometBFT and protobuf layers (A7)"},
	"C15": {"the composition import(export(s)) = s as one statement (the three contracts are proved; the composition and the counting lemma are the written argument of DESIGN.md section 13 item 12)", "JSON/proto encoding of the genesis file; other modules' genesis"},
	"C18": {"a rejected message leaves all module state and balances unchanged at the transaction boundary (baseapp guarantee, A1)"},
	"C20": {"the binary starts for reasons other than the CLI bindings; offline transaction JSON; a running chain; rendering of answers"},
}

func assumptionsFor(prop string) []string {
	return []string{
		"A1 baseapp discards the state changes of a failed message (cache-wrapped store)",
		"A2 third parties only ever add coins to escrow addresses",
		"A3 big-integer arithmetic is mathematical: 256-bit Int / 315-bit LegacyDec overflow panics are not modelled",
		"A4 the SDK's address.Module hash is injective on names and misses user addresses (that the three escrow addresses of an auction are address.Module(ModuleName, tag+id) with distinct tags is checked: frame.escrow-addresses-derive-from-role-and-auction-id)",
		"A5 hook listeners do not re-enter the fundraising keeper or move escrow funds",
		"A6 time.Time values are UTC instants within the int64 Unix-nanosecond range (years 1678-2262); AddDate(0,0,d) adds d*24h",
		"A7 x/bank, x/distribution, collections and the codec behave as the extern models say",
		"A8 one Keeper value per store; collection handles are the Keeper's fields",
		"A9 go/ssa is a faithful translation of the Go source",
		"A10 induction over histories: the step case is proved (every message handler and BeginBlocker preserve the module invariant I); see A12 for the base case",
		"A11 slices and maps hold fewer than 2^48 elements",
		"A13 AccAddress.String() prints a spelling that AccAddressFromBech32 decodes back to the same address (the converse is NOT assumed: a valid string need not be the canonical spelling; the empty address, which prints as the empty string, never arises: every address the module prints was parsed from a valid string or derived by hash)",
		"A12 the state after the chain's first genesis satisfies the module invariant I (true for the empty store; Validate alone does not imply it)",
	}
}

// runLemmas discharges the spec-level lemmas labelled with the property (closed formulas, no path condition).
func (V *Verifier) runLemmas(prop, scratch string) []*Oblig {
	var out []*Oblig
	for _, l := range V.cs.Lemmas {
		has := false
		for _, p := range l.Labels {
			if p == prop {
				has = true
			}
		}
		if !has {
			continue
		}
		x := &X{V: V, key: "lemma", inlined: map[string]bool{}, externs: map[string]bool{}, assumed: map[string]bool{}, callCnt: map[string]int{}, nameCnt: map[string]int{},
			opqNils: map[string]string{}, walkIdx: nil, sorts: map[string]string{}, sums: map[string]*SumFn{}}
		s := &State{objs: map[int]Val{}, arrs: map[int]Val{}, maps: map[int]MapS{}, ghost: map[string]Val{}, iters: nil, lets: map[string]Val{}}
		ev := &Ev{x: x, cur: s, now: s, old: s, scope: []map[string]Val{{}}, pkg: V.typesPkg(), where: l.File}
		var goal string
		func() {
			defer func() {
				if r := recover(); r != nil {
					goal = ""
					if u, ok := r.(unsupported); ok {
						out = append(out, &Oblig{Name: "lemma#" + l.Name, Fn: "lemma", Kind: "lemma", Labels: l.Labels, Status: "error", Detail: u.msg, Clause: l.Text})
						return
					}
					panic(r)
				}
			}()
			goal = tm(ev.eval(l.Expr))
		}()
		if goal == "" {
			continue
		}
		o := &Oblig{Name: "lemma#" + l.Name, Fn: "lemma", Kind: "lemma", Labels: l.Labels, Goal: goal, Clause: l.Text, Decls: x.decls}
		V.discharge(o, x.sums, scratch)
		out = append(out, o)
	}
	return out
}

func cmdSelftest(V *Verifier, pos []string, verbose bool) int {
	fmt.Println("selftest: use /verif/selftest/run.sh")
	return 0
}
