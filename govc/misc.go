package main

import "fmt"

var notDecided = map[string][]string{}

func assumptionsFor(prop string) []string {
	return []string{
		"A1 baseapp discards the state changes of a failed message (cache-wrapped store)",
		"A2 third parties only ever add coins to escrow addresses",
		"A3 big-integer arithmetic is mathematical: 256-bit Int / 315-bit LegacyDec overflow panics are not modelled",
		"A4 escrow address derivation is injective in (role, auction id) and disjoint from user addresses",
		"A5 hook listeners do not re-enter the fundraising keeper or move escrow funds",
		"A6 time.Time values are UTC instants (Unix nanoseconds); AddDate(0,0,d) adds d*24h",
		"A7 x/bank, x/distribution, collections and the codec behave as the extern models say",
		"A8 one Keeper value per store; collection handles are the Keeper's fields",
		"A9 go/ssa is a faithful translation of the Go source",
		"A10 induction over histories: every entry point preserves Inv (meta-argument in DESIGN.md section 4.3)",
		"A11 slices and maps hold fewer than 2^48 elements",
	}
}

func (V *Verifier) runLemmas(prop, scratch string) []*Oblig { return nil }

func (V *Verifier) tryReplay(prop string, o *Oblig, dir string) bool { return false }

func cmdSelftest(V *Verifier, pos []string, verbose bool) int {
	fmt.Println("selftest: use /verif/selftest/run.sh")
	return 0
}
