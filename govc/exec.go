package main

// Forward symbolic execution of go/ssa with path splitting. Loops of the function under verification are cut at
// their invariants; calls are replaced by callee contracts, extern models, or (for loop-free module functions
// without a contract, and for closures) by executing the callee body in a new frame.

import (
	"fmt"
	"go/ast"
	"go/token"
	"go/types"
	"os"
	"runtime/debug"
	"sort"
	"strings"

	"golang.org/x/tools/go/ssa"
)

type Frame struct {
	fn     *ssa.Function
	env    map[ssa.Value]Val
	block  *ssa.BasicBlock
	idx    int
	prev   *ssa.BasicBlock
	call   ssa.Value // instruction in the parent frame that receives the results (nil for engine continuations)
	kont   Kont      // engine continuation run with the results instead of binding call
	defers []*ssa.Defer
}

// Kont is an engine-level continuation invoked when a frame returns.
type Kont interface {
	resume(x *X, s *State, results []Val)
}

type IterState struct {
	Pos   string // function symbol: position of a key in the enumeration
	MapID int
	K     string // (Array Int KSort): enumeration of the domain
	N     string // number of keys
	Idx   string // completed iterations
	Dom   string
	Val   Val
	KSort string
}

type State struct {
	unroll map[*ssa.BasicBlock]int // loop headers executed without a cut on this path (exact unrolling of literal trip counts)
	frames []*Frame
	objs   map[int]Val
	arrs   map[int]Val
	maps   map[int]MapS
	ghost  map[string]Val
	iters  map[ssa.Value]*IterState
	lets   map[string]Val
	pc     []string
	dead   bool
}

func (s *State) top() *Frame { return s.frames[len(s.frames)-1] }

func (s *State) clone() *State {
	n := &State{objs: map[int]Val{}, arrs: map[int]Val{}, maps: map[int]MapS{}, ghost: map[string]Val{}, iters: map[ssa.Value]*IterState{}, lets: map[string]Val{}}
	for _, f := range s.frames {
		nf := *f
		nf.env = make(map[ssa.Value]Val, len(f.env))
		for k, v := range f.env {
			nf.env[k] = v
		}
		nf.defers = append([]*ssa.Defer{}, f.defers...)
		n.frames = append(n.frames, &nf)
	}
	for k, v := range s.objs {
		n.objs[k] = v
	}
	for k, v := range s.arrs {
		n.arrs[k] = v
	}
	for k, v := range s.maps {
		n.maps[k] = v
	}
	for k, v := range s.ghost {
		n.ghost[k] = v
	}
	for k, v := range s.iters {
		c := *v
		n.iters[k] = &c
	}
	for k, v := range s.lets {
		n.lets[k] = v
	}
	n.pc = append([]string{}, s.pc...)
	if s.unroll != nil {
		n.unroll = map[*ssa.BasicBlock]int{}
		for k, v := range s.unroll {
			n.unroll[k] = v
		}
	}
	return n
}

// snapshot is a clone without frames, used as the "old" state of contract evaluation.
func (s *State) snapshot() *State {
	fr := s.frames
	s.frames = nil
	n := s.clone()
	s.frames = fr
	return n
}

func (s *State) assume(f string) {
	if f != "true" && f != "" {
		s.pc = append(s.pc, f)
	}
}

// assumeG records an assumption that comes from a grouped clause: only obligations of the same group see it.
func (s *State) assumeG(group, f string) {
	if group == "" {
		s.assume(f)
		return
	}
	if f != "true" && f != "" {
		s.pc = append(s.pc, ";grp="+group+";"+f)
	}
}

// pcEntry splits a path-condition entry into its group ("" for ordinary entries) and formula.
func pcEntry(p string) (group, f string) {
	if strings.HasPrefix(p, ";grp=") {
		rest := p[5:]
		if i := strings.Index(rest, ";"); i >= 0 {
			return rest[:i], rest[i+1:]
		}
	}
	return "", p
}

// visiblePC: the assumptions an obligation of the given group may use.
func visiblePC(pc []string, group string) []string {
	out := make([]string, 0, len(pc))
	for _, p := range pc {
		g, f := pcEntry(p)
		// "~name" groups are soft: also visible to ungrouped obligations (but not to the other groups)
		if g == "" || g == group || (g == "+" && group != "") || (strings.HasPrefix(g, "~") && group == "") {
			out = append(out, f)
		}
	}
	return out
}

type Oblig struct {
	Name   string
	Fn     string
	Kind   string // ensures, pre, invariant.init, invariant.preserve, nopanic, frame, lemma, scan
	Labels []string
	Goal   string
	PC     []string
	Decls  []string
	Clause string
	Where  string
	// results
	Status  string // unsat (discharged), sat, unknown, timeout, error
	Backend string
	Time    float64
	Detail  string
	Bytes   int
	Model   string
	Group   string
	Replay  *ReplayInfo // inputs and predicted outputs of the function under verification (postcondition obligations)
	Vacuity bool        // a query that is expected to be sat (reachability witness)
}

type Undecided struct{ Fn, Reason string }

// X verifies one function.
type X struct {
	lastGroup   string // group of the clause evaluated last as a goal (consumed by emit)
	V           *Verifier
	fn          *ssa.Function
	key         string
	ct          *Contract
	decls       []string
	nsym        int
	nid         int
	obligs      []*Oblig
	paths       int
	entry       *State
	params      map[string]Val
	retVals     []Val          // results at the return whose postconditions are being emitted
	entryParams map[string]Val // parameter values at entry
	loopOrd     map[*ssa.BasicBlock]int
	walkIdx     map[ssa.Value]int
	searchIdx   map[ssa.Value]int
	inlined     map[string]bool
	externs     map[string]bool
	assumed     map[string]bool
	callCnt     map[string]int
	nameCnt     map[string]int
	opqNils     map[string]string
	junkAuction Val
	noAbbrev    int
	sorts       map[string]string
	sums        map[string]*SumFn
	depth       int
	maxPaths    int
}

type unsupported struct{ msg string }

func (x *X) fail(format string, a ...interface{}) {
	panic(unsupported{fmt.Sprintf(format, a...)})
}

func (x *X) sym(prefix, sort string) string {
	x.nsym++
	prefix = strings.NewReplacer("|", "_", "\\", "_", " ", "_").Replace(prefix)
	n := fmt.Sprintf("|%s!%d|", prefix, x.nsym)
	x.decls = append(x.decls, fmt.Sprintf("(declare-const %s %s)", n, smtSort(sort)))
	x.sorts[n] = smtSort(sort)
	return n
}
func (x *X) declFun(prefix string, args []string, ret string) string {
	x.nsym++
	n := fmt.Sprintf("|%s!%d|", prefix, x.nsym)
	x.decls = append(x.decls, fmt.Sprintf("(declare-fun %s (%s) %s)", n, strings.Join(args, " "), ret))
	x.sorts[n] = ret
	return n
}
func (x *X) bound(prefix, sort string) string {
	x.nsym++
	n := fmt.Sprintf("%s_%d", prefix, x.nsym)
	x.sorts[n] = smtSort(sort)
	return n
}
func (x *X) newID() int { x.nid++; return x.nid }

func (x *X) emit(s *State, kind, name string, labels []string, goal string, clause string) {
	if goal == "true" {
		// still recorded: trivially discharged obligations count, but need no solver
	}
	full := x.key + "#" + name
	x.nameCnt[full]++
	if n := x.nameCnt[full]; n > 1 {
		full = fmt.Sprintf("%s.%d", full, n)
	}
	// a conjunctive goal is split into one obligation per conjunct (through =>, forall and let-free structure): smaller
	// queries, and a failure names the conjunct
	goals := []string{goal}
	if kind != "vacuity" && strings.Contains(goal, "(and ") {
		if e, err := parseSx(goal); err == nil {
			parts := splitConj(e, 0)
			if len(parts) > 1 && len(parts) <= 8 {
				goals = goals[:0]
				for _, p := range parts {
					goals = append(goals, p.String())
				}
			}
		}
	}
	pc := append([]string{}, s.pc...)
	grp := x.lastGroup
	x.lastGroup = ""
	for i, g := range goals {
		nm := full
		if len(goals) > 1 {
			nm = fmt.Sprintf("%s/c%d", full, i+1)
		}
		o := &Oblig{Name: nm, Fn: x.key, Kind: kind, Labels: labels, Goal: g, PC: visiblePC(pc, grp), Clause: clause, Group: grp}
		if kind == "ensures" && x.retVals != nil && len(s.frames) == 1 {
			var ps []Val
			for _, p := range x.fn.Params {
				ps = append(ps, x.entryParams[p.Name()])
			}
			o.Replay = &ReplayInfo{Fn: x.fn, Params: ps, Results: x.retVals}
		}
		o.Decls = x.decls[:len(x.decls):len(x.decls)]
		x.obligs = append(x.obligs, o)
	}
}

// splitConj splits a formula into conjuncts, distributing =>, forall and pattern annotations over "and".
func splitConj(e *sx, depth int) []*sx {
	if e.isAtom() || len(e.kids) == 0 || !e.kids[0].isAtom() || depth > 6 {
		return []*sx{e}
	}
	switch e.kids[0].atom {
	case "and":
		var out []*sx
		for _, k := range e.kids[1:] {
			out = append(out, splitConj(k, depth+1)...)
		}
		return out
	case "=>":
		if len(e.kids) == 3 {
			var out []*sx
			for _, c := range splitConj(e.kids[2], depth+1) {
				out = append(out, &sx{kids: []*sx{e.kids[0], e.kids[1], c}})
			}
			return out
		}
	case "forall":
		if len(e.kids) == 3 {
			body := e.kids[2]
			if !body.isAtom() && len(body.kids) >= 2 && body.kids[0].isAtom() && body.kids[0].atom == "!" {
				body = body.kids[1] // drop the pattern: it may not cover every conjunct
			}
			parts := splitConj(body, depth+1)
			if len(parts) == 1 {
				return []*sx{e}
			}
			var out []*sx
			for _, c := range parts {
				out = append(out, &sx{kids: []*sx{e.kids[0], e.kids[1], c}})
			}
			return out
		}
	}
	return []*sx{e}
}

// ---------------------------------------------------------------- fresh symbolic values

type wrapFn func(string) string

func idWrap(s string) string { return s }

// mk builds a fresh symbolic value of type t. wrap maps a leaf sort to the sort actually declared (array layers).
// inAgg is true below an array layer (no object identity available there).
func (x *X) mk(s *State, prefix string, t types.Type, wrap wrapFn, inAgg bool) Val {
	if so := scalarSort(t); so != "" {
		sc := Sc{T: x.sym(prefix, wrap(smtSort(so))), Sort: wrap(smtSort(so))}
		if !inAgg && so == "Int" {
			if _, isBasic := t.Underlying().(*types.Basic); isBasic {
				s.assume(rangeFact(sc.T, t)) // machine integers are in their type's range
			}
		}
		return sc
	}
	n := namedOf(t)
	if strings.HasPrefix(n, "cosmossdk.io/collections.") {
		return Coll{prefix}
	}
	if n == tyAuction {
		if inAgg {
			return x.auctionRecord(s, prefix, wrap) // below an array layer auctions are union records
		}
		return x.mkAuction(s, prefix)
	}
	if isErrorType(t) {
		if inAgg {
			return Opq{"error inside aggregate"}
		}
		return Er{x.sym(prefix+".isnil", "Bool"), x.sym(prefix+".kind", "Int")}
	}
	switch u := t.Underlying().(type) {
	case *types.Struct:
		st := St{map[string]Val{}}
		for i := 0; i < u.NumFields(); i++ {
			f := u.Field(i)
			if f.Name() == "_" {
				continue
			}
			st.F[f.Name()] = x.mk(s, prefix+"."+f.Name(), f.Type(), wrap, inAgg)
		}
		if n == modKeeper+".Keeper" {
			for k, v := range st.F {
				if _, ok := v.(Coll); ok {
					st.F[k] = Coll{k}
				}
			}
		}
		return st
	case *types.Array:
		st := St{map[string]Val{}}
		for i := int64(0); i < u.Len(); i++ {
			st.F[fmt.Sprint(i)] = x.mk(s, fmt.Sprintf("%s[%d]", prefix, i), u.Elem(), wrap, inAgg)
		}
		return st
	case *types.Slice:
		l := x.sym(prefix+".len", wrap("Int"))
		el := x.mk(s, prefix+".e", u.Elem(), func(so string) string { return wrap(arrSort("Int", so)) }, true)
		if !inAgg || wrap("Int") == "Int" {
			s.assume(fmt.Sprintf("(and (<= 0 %s) (< %s 281474976710656))", l, l))
		}
		return Sl{0, l, el}
	case *types.Map:
		if inAgg {
			return Opq{"map inside aggregate"}
		}
		return x.newMap(s, prefix, u, true)
	case *types.Pointer:
		if namedOf(u.Elem()) == tyAny {
			return x.auctionRecord(s, prefix, wrap) // *codectypes.Any: in this module always a packed AuctionI (union record, Kind 0 = nil)
		}
		if inAgg {
			return Opq{"pointer inside aggregate"}
		}
		if _, isStruct := u.Elem().Underlying().(*types.Struct); isStruct && scalarSort(u.Elem()) == "" {
			id := x.newID()
			s.objs[id] = x.mk(s, prefix+"^", u.Elem(), wrap, false)
			return Ptr{id, nil}
		}
		return Opq{"pointer to " + u.Elem().String()}
	case *types.Interface:
		return Opq{n}
	case *types.Signature:
		return Opq{"func value"}
	}
	return Opq{t.String()}
}

func (x *X) newMap(s *State, prefix string, u *types.Map, symbolic bool) MapV {
	ks := smtSort(scalarSort(u.Key()))
	if ks == "" {
		x.fail("map with key type %s", u.Key())
	}
	wrap := func(so string) string { return arrSort(ks, so) }
	et := u.Elem()
	ptr := false
	if p, ok := et.Underlying().(*types.Pointer); ok {
		et, ptr = p.Elem(), true
	}
	m := MapS{KSort: ks, PtrElem: ptr, ElemT: et}
	id := x.newID()
	if symbolic {
		m.Dom = x.sym(prefix+".dom", wrap("Bool"))
		m.Val = x.mk(s, prefix+".val", et, wrap, true)
		if sl, ok := m.Val.(Sl); ok {
			// slice-valued map: every stored slice has a sane length
			k := x.bound("k", ks)
			s.assume(fmt.Sprintf("(forall ((%s %s)) (! (and (<= 0 (select %s %s)) (< (select %s %s) 281474976710656)) :pattern ((select %s %s))))", k, ks, sl.Len, k, sl.Len, k, sl.Len, k))
		}
	} else {
		m.Dom = fmt.Sprintf("((as const %s) false)", wrap("Bool"))
		m.Val = x.zero(s, et, wrap)
	}
	s.maps[id] = m
	return MapV{id}
}

// zero is the Go zero value of t (below array layers: constant arrays of the zero value).
func (x *X) zero(s *State, t types.Type, wrap wrapFn) Val {
	cst := func(so, v string) string {
		w := wrap(so)
		if w == so {
			return v
		}
		// nested constant arrays
		return constArr(w, so, v)
	}
	if so := scalarSort(t); so != "" {
		so = smtSort(so)
		switch namedOf(t) {
		case tyInt, tyDec:
			sc := Sc{T: cst("Int", "0"), Sort: wrap("Int")}
			if wrap("Int") == "Int" {
				sc.Nil = "true"
			}
			return sc
		case tyAddr:
			return Sc{T: cst("Addr", "nilAddr"), Sort: wrap("Addr")}
		case tyCoins:
			return Sc{T: cst("(Array Str Int)", "noCoins"), Sort: wrap("(Array Str Int)")}
		case tyTime:
			return Sc{T: cst("Int", "TIME_ZERO"), Sort: wrap("Int")}
		}
		switch so {
		case "Int":
			return Sc{T: cst("Int", "0"), Sort: wrap("Int")}
		case "Bool":
			return Sc{T: cst("Bool", "false"), Sort: wrap("Bool")}
		case "Str":
			return Sc{T: cst("Str", "emptyStr"), Sort: wrap("Str")}
		case "Ref":
			return Sc{T: cst("Ref", "nilref"), Sort: wrap("Ref")}
		}
	}
	if isErrorType(t) {
		return Er{"true", "0"}
	}
	if namedOf(t) == tyAuction {
		if wrap("Int") != "Int" {
			// below an array layer auctions are union records
			rec := St{map[string]Val{"Kind": Sc{T: cst("Int", "0"), Sort: wrap("Int")}}}
			rec.F["Base"] = x.zero(s, x.V.lookupType("BaseAuction"), wrap)
			for _, tn := range []string{"FixedPriceAuction", "BatchAuction"} {
				st := x.V.lookupType(tn).Underlying().(*types.Struct)
				for i := 0; i < st.NumFields(); i++ {
					if f := st.Field(i); f.Name() != "BaseAuction" {
						rec.F[f.Name()] = x.zero(s, f.Type(), wrap)
					}
				}
			}
			return rec
		}
		return Iface{Kind: "0", V: Ptr{0, nil}}
	}
	switch u := t.Underlying().(type) {
	case *types.Struct:
		st := St{map[string]Val{}}
		for i := 0; i < u.NumFields(); i++ {
			if u.Field(i).Name() == "_" {
				continue
			}
			st.F[u.Field(i).Name()] = x.zero(s, u.Field(i).Type(), wrap)
		}
		return st
	case *types.Array:
		st := St{map[string]Val{}}
		for i := int64(0); i < u.Len(); i++ {
			st.F[fmt.Sprint(i)] = x.zero(s, u.Elem(), wrap)
		}
		return st
	case *types.Slice:
		el := x.zero(s, u.Elem(), func(so string) string { return wrap(arrSort("Int", so)) })
		return Sl{0, cst("Int", "0"), el}
	case *types.Map:
		return MapV{0}
	case *types.Pointer:
		if namedOf(u.Elem()) == tyAny {
			return x.zero(s, x.V.lookupType("AuctionI"), func(so string) string { return arrSort("Int", wrap(so)) }).(St).selAll("0")
		}
		return Ptr{0, nil}
	case *types.Interface:
		return Iface{Kind: "", V: nil}
	case *types.Signature:
		return Opq{"nil func"}
	}
	return Opq{"zero " + t.String()}
}

// constArr builds ((as const W) ...) for nested array sort w whose innermost element sort is so with value v.
func constArr(w, so, v string) string {
	if w == so {
		return v
	}
	if !(v == "true" || v == "false" || v == "0" || v == "noCoins") {
		// cvc5 accepts only values in constant arrays: use a declared (unconstrained) array for symbolic defaults
		return "|zarr:" + strings.ReplaceAll(w, " ", "_") + ":" + strings.Trim(v, "|") + "|"
	}
	inner := elemSort(w)
	return fmt.Sprintf("((as const %s) %s)", w, constArr(inner, so, v))
}

// ---------------------------------------------------------------- reading SSA values

func (x *X) val(s *State, v ssa.Value) Val {
	fr := s.top()
	switch c := v.(type) {
	case *ssa.Const:
		return x.constVal(s, c)
	case *ssa.Global:
		return PGlobal{c}
	case *ssa.Function:
		return FnVal{c}
	case *ssa.Builtin:
		return Opq{"builtin " + c.Name()}
	}
	if r, ok := fr.env[v]; ok {
		return r
	}
	if fv, ok := v.(*ssa.FreeVar); ok {
		x.fail("unbound free variable %s", fv.Name())
	}
	x.fail("no value for %s = %s in %s", v.Name(), v.String(), fr.fn.Name())
	return nil
}

func (x *X) constVal(s *State, c *ssa.Const) Val {
	if c.Value == nil {
		return x.zero(s, c.Type(), idWrap)
	}
	b, ok := c.Type().Underlying().(*types.Basic)
	if !ok {
		x.fail("constant of type %s", c.Type())
	}
	switch {
	case b.Info()&types.IsInteger != 0:
		str := c.Value.ExactString()
		if strings.HasPrefix(str, "-") {
			return Sc{T: "(- " + str[1:] + ")", Sort: "Int"}
		}
		return Sc{T: str, Sort: "Int"}
	case b.Info()&types.IsBoolean != 0:
		return Sc{T: c.Value.String(), Sort: "Bool"}
	case b.Info()&types.IsString != 0:
		return Sc{T: x.V.strLit(constantString(c)), Sort: "Str"}
	}
	x.fail("constant kind %s", c.Type())
	return nil
}

// ---------------------------------------------------------------- heap access

func (x *X) flat(s *State, v Val) Val {
	switch y := v.(type) {
	case Iface:
		// an AuctionI stored into a slice / array / map is kept as its union record (by value: later writes through the
		// object are not reflected in the stored copy; the module never reads an element again after mutating the object)
		if y.Kind != "" {
			if p, ok := y.V.(Ptr); ok && p.Obj != 0 {
				scratch := &State{} // the shape donor's length facts are not assumptions of the path
				like := x.auctionRecord(scratch, "like", idWrap)
				rec := x.auctionToRecord(s, y, like)
				rec.F["Kind"] = Sc{T: y.Kind, Sort: "Int"}
				return rec
			}
		}
		return v
	case Sl:
		if y.ID == 0 {
			if y.Elem == nil {
				return y
			}
			return Sl{0, y.Len, x.flat(s, y.Elem)}
		}
		return Sl{0, y.Len, x.flat(s, s.arrs[y.ID])}
	case St:
		r := St{map[string]Val{}}
		for k, e := range y.F {
			r.F[k] = x.flat(s, e)
		}
		return r
	}
	return v
}

func (x *X) slElem(s *State, sl Sl) Val {
	if sl.ID != 0 {
		return s.arrs[sl.ID]
	}
	return sl.Elem
}

func (x *X) load(s *State, p Val, t types.Type) Val {
	v := x.load0(s, p, t)
	if rec, ok := v.(St); ok && t != nil && namedOf(t) == tyAuction {
		if k, has := rec.F["Kind"]; has {
			return x.auctionFromRecord(s, rec, tm(k))
		}
	}
	return v
}

func (x *X) load0(s *State, p Val, t types.Type) Val {
	switch q := p.(type) {
	case Ptr:
		if q.Obj == 0 {
			x.emit(s, "nopanic", "nopanic.nilderef@"+x.site(s), nil, "false", "nil pointer dereference")
			s.dead = true
			return x.zero(s, t, idWrap)
		}
		return pathGet(s.objs[q.Obj], q.Path)
	case PElem:
		return pathGet(selV(x.flat(s, s.arrs[q.ID]), q.Idx), q.Path)
	case PCell:
		return pathGet(selV(s.maps[q.ID].Val, q.Key), q.Path)
	case PGlobal:
		return x.loadGlobal(s, q.G)
	}
	x.fail("load through %T", p)
	return nil
}

func (x *X) store(s *State, p Val, v Val) {
	switch q := p.(type) {
	case Ptr:
		if q.Obj == 0 {
			x.emit(s, "nopanic", "nopanic.nilderef@"+x.site(s), nil, "false", "nil pointer dereference")
			s.dead = true
			return
		}
		s.objs[q.Obj] = pathSet(s.objs[q.Obj], q.Path, v)
	case PElem:
		cur := selV(x.flat(s, s.arrs[q.ID]), q.Idx)
		nv := x.flat(s, pathSet(cur, q.Path, v))
		x.checkNoNil(s, nv, "slice element")
		s.arrs[q.ID] = stoV(x.flat(s, s.arrs[q.ID]), nv, q.Idx)
	case PCell:
		m := s.maps[q.ID]
		cur := selV(m.Val, q.Key)
		nv := x.flat(s, pathSet(cur, q.Path, v))
		x.checkNoNil(s, nv, "map cell")
		m.Val = stoV(m.Val, nv, q.Key)
		s.maps[q.ID] = m
	case PGlobal:
		x.storeGlobal(s, q.G, v)
	default:
		x.fail("store through %T", p)
	}
}

// checkNoNil: values written into array-modelled storage lose the nil-Int flag, so they must be non-nil.
func (x *X) checkNoNil(s *State, v Val, what string) {
	var ls []leaf
	leaves(v, "", &ls)
	for _, l := range ls {
		if l.S.Nil != "" && l.S.Nil != "false" {
			x.emit(s, "nopanic", "nonnil"+l.Path+"@"+x.site(s), nil, sNot(l.S.Nil), "a zero-value math.Int/LegacyDec is stored into a "+what)
		}
	}
}

func (x *X) site(s *State) string {
	fr := s.top()
	pos := token.NoPos
	if fr.block != nil && fr.idx < len(fr.block.Instrs) {
		pos = fr.block.Instrs[fr.idx].Pos()
		if pos == token.NoPos {
			// search backwards for a position
			for i := fr.idx; i >= 0 && pos == token.NoPos; i-- {
				pos = fr.block.Instrs[i].Pos()
			}
		}
	}
	n := fr.fn.Name()
	if pos != token.NoPos {
		p := x.V.prog.Fset.Position(pos)
		return fmt.Sprintf("%s:L%d", n, p.Line-x.V.prog.Fset.Position(fr.fn.Pos()).Line)
	}
	return fmt.Sprintf("%s:b%d.%d", n, fr.block.Index, fr.idx)
}

// ---------------------------------------------------------------- loops

func loopBlocks(h *ssa.BasicBlock) map[*ssa.BasicBlock]bool {
	in := map[*ssa.BasicBlock]bool{h: true}
	var work []*ssa.BasicBlock
	for _, p := range h.Preds {
		if h.Dominates(p) {
			work = append(work, p)
		}
	}
	for len(work) > 0 {
		b := work[len(work)-1]
		work = work[:len(work)-1]
		if in[b] {
			continue
		}
		in[b] = true
		work = append(work, b.Preds...)
	}
	return in
}

func isLoopHeader(b *ssa.BasicBlock) bool {
	for _, p := range b.Preds {
		if b.Dominates(p) {
			return true
		}
	}
	return false
}

// loopOrdinals numbers loop headers in source order.
func loopOrdinals(fn *ssa.Function) map[*ssa.BasicBlock]int {
	var hs []*ssa.BasicBlock
	for _, b := range fn.Blocks {
		if isLoopHeader(b) {
			hs = append(hs, b)
		}
	}
	pos := func(b *ssa.BasicBlock) token.Pos {
		best := token.NoPos
		for blk := range loopBlocks(b) {
			for _, in := range blk.Instrs {
				if _, isPhi := in.(*ssa.Phi); isPhi {
					continue // a phi carries the position of the variable's declaration, which may precede the loop
				}
				if p := in.Pos(); p != token.NoPos && (best == token.NoPos || p < best) {
					best = p
				}
			}
		}
		return best
	}
	sort.SliceStable(hs, func(i, j int) bool { return pos(hs[i]) < pos(hs[j]) })
	out := map[*ssa.BasicBlock]int{}
	for i, h := range hs {
		out[h] = i
	}
	return out
}

// havocLoop replaces everything the loop may write by fresh symbols.
func (x *X) havocLoop(s *State, h *ssa.BasicBlock) {
	fr := s.top()
	blocks := loopBlocks(h)
	for _, in := range h.Instrs {
		if p, ok := in.(*ssa.Phi); ok {
			fr.env[p] = x.havocLike(s, "h."+p.Comment, p.Type(), fr.env[p])
		}
	}
	// written heap locations, resolved through the current (loop entry) state
	wObj := map[int]map[string][]string{}
	wArr := map[int]bool{}
	wMap := map[int]bool{}
	var markPtr func(p Val)
	markPtr = func(p Val) {
		switch q := p.(type) {
		case Ptr:
			if q.Obj != 0 {
				if wObj[q.Obj] == nil {
					wObj[q.Obj] = map[string][]string{}
				}
				wObj[q.Obj][strings.Join(q.Path, "\x00")] = q.Path
			}
		case PElem:
			wArr[q.ID] = true
		case PCell:
			wMap[q.ID] = true
		}
	}
	for b := range blocks {
		for _, in := range b.Instrs {
			switch i := in.(type) {
			case *ssa.Store:
				if p, ok := x.tryAddr(s, i.Addr); ok {
					markPtr(p)
				} else {
					x.fail("loop writes through an address the engine cannot resolve at loop entry: %s", i)
				}
			case *ssa.MapUpdate:
				if mv, ok := x.tryVal(s, i.Map).(MapV); ok {
					wMap[mv.ID] = true
				} else {
					x.fail("loop updates a map the engine cannot resolve at loop entry: %s", i)
				}
			case *ssa.Lookup:
				if _, isMap := i.X.Type().Underlying().(*types.Map); isMap {
					if mv, ok := x.tryVal(s, i.X).(MapV); ok && mv.ID != 0 && s.maps[mv.ID].PtrElem {
						wMap[mv.ID] = true
					}
				}
			case ssa.CallInstruction:
				x.havocCallEffects(s, i, wObj, wArr, wMap)
			case *ssa.Range:
				// iteration state of an inner map loop is (re)created by the Range instruction itself
			}
		}
	}
	for id, paths := range wObj {
		for _, p := range paths {
			cur := pathGet(s.objs[id], p)
			s.objs[id] = pathSet(s.objs[id], p, x.havocLike(s, fmt.Sprintf("h.obj%d.%s", id, strings.Join(p, ".")), nil, cur))
		}
	}
	for id := range wArr {
		s.arrs[id] = x.havocLike(s, fmt.Sprintf("h.arr%d", id), nil, x.flat(s, s.arrs[id]))
	}
	for id := range wMap {
		m := s.maps[id]
		m.Dom = x.sym(fmt.Sprintf("h.map%d.dom", id), arrSort(m.KSort, "Bool"))
		m.Val = x.havocLike(s, fmt.Sprintf("h.map%d.val", id), nil, m.Val)
		s.maps[id] = m
	}
	for _, g := range sortedSet(x.loopGhostWrites(s, h)) {
		x.havocTarget(s, g, nil, "h")
	}
	// iteration counter of a map-range loop whose header this is
	for r, it := range s.iters {
		if rb := r.(*ssa.Range).Block(); !blocks[rb] {
			// the Range instruction is outside the loop: this loop may be the one iterating it
			if x.iterHeader(r.(*ssa.Range)) == h {
				it.Idx = x.sym("h.iter", "Int")
				s.assume(fmt.Sprintf("(and (<= 0 %s) (<= %s %s))", it.Idx, it.Idx, it.N))
			}
		}
	}
}

// iterHeader finds the loop header block that consumes the iterator (the block containing its Next).
func (x *X) iterHeader(r *ssa.Range) *ssa.BasicBlock {
	for _, ref := range *r.Referrers() {
		if n, ok := ref.(*ssa.Next); ok {
			return n.Block()
		}
	}
	return nil
}

// havocLike makes a fresh value with the shape of cur (or of type t if cur is nil).
func (x *X) havocLike(s *State, prefix string, t types.Type, cur Val) Val {
	switch y := cur.(type) {
	case Sc:
		so := x.sortOfTerm(y.T, y.Sort)
		nv := Sc{T: x.sym(prefix, so), Sort: so}
		if t != nil {
			if f := rangeFact(nv.T, t); f != "true" && scalarSort(t) == "Int" && namedOf(t) == "" {
				s.assume(f)
			}
		}
		return nv
	case St:
		r := St{map[string]Val{}}
		for k, e := range y.F {
			r.F[k] = x.havocLike(s, prefix+"."+k, nil, e)
		}
		return r
	case Sl:
		lso := x.sortOfTerm(y.Len, "Int")
		l := x.sym(prefix+".len", lso)
		if lso == "Int" {
			s.assume(fmt.Sprintf("(and (<= 0 %s) (< %s 281474976710656))", l, l))
		}
		el := x.slElem(s, y)
		var nel Val
		if el != nil {
			nel = x.havocLike(s, prefix+".e", nil, x.flat(s, el))
		} else if t != nil {
			if st, ok := t.Underlying().(*types.Slice); ok {
				nel = x.mk(s, prefix+".e", st.Elem(), func(so string) string { return arrSort("Int", so) }, true)
			}
		}
		if y.ID != 0 {
			id := x.newID()
			s.arrs[id] = nel
			return Sl{id, l, nil}
		}
		return Sl{0, l, nel}
	case Er:
		return Er{x.sym(prefix+".isnil", "Bool"), x.sym(prefix+".kind", "Int")}
	case nil:
		if t == nil {
			x.fail("havoc of an unknown value %s", prefix)
		}
		return x.mk(s, prefix, t, idWrap, false)
	case Ptr, MapV, Clo, Coll, Opq, FnVal, PElem, PCell, PGlobal:
		return cur // references are loop invariant unless reassigned through a phi; reassignment handled below
	case Iface:
		return cur
	case Tuple:
		return cur
	}
	x.fail("havocLike %T", cur)
	return nil
}

func (x *X) tryAddr(s *State, v ssa.Value) (p Val, ok bool) {
	defer func() {
		if r := recover(); r != nil {
			if _, isU := r.(unsupported); isU {
				ok = false
				return
			}
			panic(r)
		}
	}()
	fr := s.top()
	if r, has := fr.env[v]; has {
		return r, true
	}
	switch y := v.(type) {
	case *ssa.FieldAddr:
		base, ok := x.tryAddr(s, y.X)
		if !ok {
			return nil, false
		}
		fld := y.X.Type().Underlying().(*types.Pointer).Elem().Underlying().(*types.Struct).Field(y.Field).Name()
		switch b := base.(type) {
		case Ptr:
			return Ptr{b.Obj, ap(b.Path, fld)}, true
		case PElem:
			return PElem{b.ID, b.Idx, ap(b.Path, fld)}, true
		case PCell:
			return PCell{b.ID, b.Key, ap(b.Path, fld)}, true
		}
	case *ssa.IndexAddr:
		base, ok := x.tryAddr(s, y.X)
		if !ok {
			if bv, has := fr.env[y.X]; has {
				base = bv
			} else {
				return nil, false
			}
		}
		switch b := base.(type) {
		case Sl:
			if b.ID != 0 {
				return PElem{b.ID, "?", nil}, true
			}
		case Ptr:
			return Ptr{b.Obj, b.Path}, true
		}
	case *ssa.Global:
		return PGlobal{y}, true
	case *ssa.UnOp: // pointer loaded from a cell, e.g. captured variable holding a pointer
		if y.Op == token.MUL {
			if base, ok := x.tryAddr(s, y.X); ok {
				if bp, isP := base.(Ptr); isP && bp.Obj != 0 {
					if inner, isPtr := pathGet(s.objs[bp.Obj], bp.Path).(Ptr); isPtr {
						return inner, true
					}
				}
			}
		}
	case *ssa.Alloc:
		// allocated inside the loop: fresh each iteration, nothing to havoc
		return Ptr{0, nil}, true
	case *ssa.Lookup, *ssa.Extract, *ssa.Call, *ssa.Phi, *ssa.MakeInterface, *ssa.TypeAssert:
		// pointer produced inside the loop (map cell, call result): cells are covered by the map havoc
		return Ptr{0, nil}, true
	}
	return nil, false
}

func (x *X) tryVal(s *State, v ssa.Value) Val {
	fr := s.top()
	if r, has := fr.env[v]; has {
		return r
	}
	if u, ok := v.(*ssa.UnOp); ok && u.Op == token.MUL {
		if p, ok := x.tryAddr(s, u.X); ok {
			if pp, isP := p.(Ptr); isP && pp.Obj != 0 {
				return pathGet(s.objs[pp.Obj], pp.Path)
			}
		}
	}
	return nil
}

// ---------------------------------------------------------------- main interpreter loop

func (x *X) pushFrame(s *State, fn *ssa.Function, args []Val, bind []Val, call ssa.Value, k Kont) {
	if len(fn.Blocks) == 0 {
		x.fail("call to %s which has no body and no model", fn.String())
	}
	if len(s.frames) > 24 {
		x.fail("inlining depth exceeded at %s", fn.String())
	}
	fr := &Frame{fn: fn, env: map[ssa.Value]Val{}, block: fn.Blocks[0], call: call, kont: k}
	for i, p := range fn.Params {
		fr.env[p] = args[i]
	}
	for i, fv := range fn.FreeVars {
		fr.env[fv] = bind[i]
	}
	s.frames = append(s.frames, fr)
}

// exec runs state s until all of its paths end.
func (x *X) exec(s *State) {
	for !s.dead {
		if x.paths > x.maxPaths {
			x.fail("more than %d paths", x.maxPaths)
		}
		fr := s.top()
		if fr.idx == 0 {
			if done := x.enterBlock(s); done {
				return
			}
		}
		b := fr.block
		if fr.idx >= len(b.Instrs) {
			x.fail("fell off block %d of %s", b.Index, fr.fn.Name())
		}
		in := b.Instrs[fr.idx]
		cont := x.step(s, in)
		if !cont {
			return
		}
		if v, ok := in.(ssa.Value); ok {
			// keep terms small: a value whose term has grown is given a name (definitional equation in the path condition)
			if cur, has := fr.env[v]; has {
				fr.env[v] = x.abbrev(s, cur, v.Name())
			}
		}
	}
	x.paths++
}

func (x *X) gotoBlock(s *State, to *ssa.BasicBlock) {
	fr := s.top()
	fr.prev = fr.block
	fr.block = to
	fr.idx = 0
}

// enterBlock binds phis and performs the loop cut. Returns true if the path ends here.
func (x *X) enterBlock(s *State) bool {
	fr := s.top()
	b := fr.block
	var phiVals []Val
	var phis []*ssa.Phi
	for _, in := range b.Instrs {
		if p, ok := in.(*ssa.Phi); ok {
			for i, pred := range b.Preds {
				if pred == fr.prev {
					phis = append(phis, p)
					phiVals = append(phiVals, x.val(s, p.Edges[i]))
				}
			}
		}
	}
	for i, p := range phis {
		fr.env[p] = phiVals[i]
	}
	if len(s.frames) == 1 && isLoopHeader(b) {
		ord := x.loopOrd[b]
		back := fr.prev != nil && b.Dominates(fr.prev) && fr.prev != nil && loopBlocks(b)[fr.prev]
		invs := x.ct.Loops[ord]
		if len(invs) == 0 {
			if x.unrollStep(s, b) {
				goto skipPhis
			}
			x.fail("loop %d has no invariant", ord)
		}
		if back {
			// reachability witness: some path through the loop body must be satisfiable (a contradictory invariant or
			// callee contract would make every preservation obligation vacuous)
			x.emitPathCover(s, fmt.Sprintf("loop%d.body-end-reachable", ord), fr.prev.Index)
			for k, c := range invs {
				if c.Kind != "invariant" {
					continue
				}
				g := x.evalClause(s, c, evalCtx{loopHeader: b})
				x.emit(s, "invariant.preserve", fmt.Sprintf("loop%d.inv%d.preserve@b%d", ord, k, fr.prev.Index), c.Labels, g, c.Text)
			}
			x.paths++
			return true
		}
		for _, c := range invs {
			if c.Kind == "let" {
				s.lets[c.LetVar] = x.evalVal(s, c, evalCtx{loopHeader: b})
			}
		}
		for k, c := range invs {
			if c.Kind != "invariant" {
				continue
			}
			g := x.evalClause(s, c, evalCtx{loopHeader: b})
			x.emit(s, "invariant.init", fmt.Sprintf("loop%d.inv%d.init", ord, k), c.Labels, g, c.Text)
		}
		x.havocLoop(s, b)
		for _, c := range invs {
			if c.Kind == "invariant" {
				s.assumeG(c.Group, x.evalClause(s, c, evalCtx{loopHeader: b, assuming: true}))
			}
		}
	} else if len(s.frames) > 1 && isLoopHeader(b) {
		if !x.unrollStep(s, b) {
			x.fail("loop inside inlined function %s", fr.fn.Name())
		}
	}
skipPhis:
	// skip phis
	for fr.idx < len(b.Instrs) {
		if _, ok := b.Instrs[fr.idx].(*ssa.Phi); ok {
			fr.idx++
		} else {
			break
		}
	}
	return false
}

func fieldName(t types.Type, i int) string {
	return t.Underlying().(*types.Struct).Field(i).Name()
}

// step executes one instruction; returns false if the current path ended or was forked (handled recursively).
func (x *X) step(s *State, in ssa.Instruction) bool {
	fr := s.top()
	adv := func() bool { fr.idx++; return true }
	switch i := in.(type) {
	case *ssa.DebugRef:
		return adv()
	case *ssa.Alloc:
		id := x.newID()
		s.objs[id] = x.zero(s, i.Type().(*types.Pointer).Elem(), idWrap)
		fr.env[i] = Ptr{id, nil}
		return adv()
	case *ssa.MakeMap:
		fr.env[i] = x.newMap(s, "mk."+i.Name(), i.Type().Underlying().(*types.Map), false)
		return adv()
	case *ssa.MakeSlice:
		l := tm(x.val(s, i.Len))
		x.emit(s, "nopanic", "nopanic.makeslice@"+x.site(s), nil, "(<= 0 "+l+")", "make([]T, n) with negative n")
		id := x.newID()
		st := i.Type().Underlying().(*types.Slice)
		s.arrs[id] = x.zero(s, st.Elem(), func(so string) string { return arrSort("Int", so) })
		fr.env[i] = Sl{id, l, nil}
		return adv()
	case *ssa.MakeClosure:
		var bind []Val
		for _, b := range i.Bindings {
			bind = append(bind, x.val(s, b))
		}
		fr.env[i] = Clo{i.Fn.(*ssa.Function), bind}
		return adv()
	case *ssa.Store:
		x.store(s, x.val(s, i.Addr), x.val(s, i.Val))
		return adv()
	case *ssa.FieldAddr:
		fld := fieldName(i.X.Type().Underlying().(*types.Pointer).Elem(), i.Field)
		switch p := x.val(s, i.X).(type) {
		case Ptr:
			if p.Obj == 0 {
				x.emit(s, "nopanic", "nopanic.nilderef@"+x.site(s), nil, "false", "field address of nil pointer")
				s.dead = true
				x.paths++
				return false
			}
			fr.env[i] = Ptr{p.Obj, ap(p.Path, fld)}
		case PElem:
			fr.env[i] = PElem{p.ID, p.Idx, ap(p.Path, fld)}
		case PCell:
			fr.env[i] = PCell{p.ID, p.Key, ap(p.Path, fld)}
		default:
			x.fail("fieldaddr on %T at %s", p, i)
		}
		return adv()
	case *ssa.Field:
		st, ok := x.val(s, i.X).(St)
		if !ok {
			x.fail("field of %T", x.val(s, i.X))
		}
		fr.env[i] = st.F[fieldName(i.X.Type(), i.Field)]
		return adv()
	case *ssa.IndexAddr:
		switch base := x.val(s, i.X).(type) {
		case Sl:
			idx := tm(x.val(s, i.Index))
			x.emit(s, "nopanic", "nopanic.index@"+x.site(s), nil, fmt.Sprintf("(and (<= 0 %s) (< %s %s))", idx, idx, base.Len), "index out of range")
			s.assume(fmt.Sprintf("(and (<= 0 %s) (< %s %s))", idx, idx, base.Len))
			if base.ID == 0 {
				// read-only element pointer into a value slice: materialise a backing store
				id := x.newID()
				s.arrs[id] = base.Elem
				base = Sl{id, base.Len, nil}
			}
			fr.env[i] = PElem{base.ID, idx, nil}
		case Ptr: // pointer to array
			k, ok := x.literalIndex(s, i.Index)
			if !ok {
				x.fail("symbolic index into an array object")
			}
			fr.env[i] = Ptr{base.Obj, ap(base.Path, k)}
		default:
			x.fail("indexaddr on %T", base)
		}
		return adv()
	case *ssa.Index:
		switch base := x.val(s, i.X).(type) {
		case St:
			k, ok := x.literalIndex(s, i.Index)
			if !ok {
				x.fail("symbolic index into an array value")
			}
			el, has := base.F[k]
			if !has {
				x.emit(s, "nopanic", "nopanic.index@"+x.site(s), nil, "false", "index out of range")
				s.dead = true
				x.paths++
				return false
			}
			fr.env[i] = el
		default:
			x.fail("index on %T", base)
		}
		return adv()
	case *ssa.Slice:
		// only the "[n]T{...}[:]" idiom (pointer to a fresh array object) and full reslices are supported
		hi := -1
		if i.High != nil {
			if c, ok := i.High.(*ssa.Const); ok {
				hi = int(c.Int64())
			} else {
				x.fail("slice expression with symbolic bounds: %s", i)
			}
		}
		if i.Low != nil || i.Max != nil {
			if c, ok := i.Low.(*ssa.Const); !ok || c.Int64() != 0 || i.Max != nil {
				x.fail("slice expression with bounds: %s", i)
			}
		}
		switch base := x.val(s, i.X).(type) {
		case Ptr:
			arr := pathGet(s.objs[base.Obj], base.Path).(St)
			n := len(arr.F)
			if hi >= 0 && hi <= n {
				n = hi
			}
			if n == 0 && namedOf(i.Type()) == tyCoins {
				fr.env[i] = Sc{T: "noCoins", Sort: "(Array Str Int)"} // sdk.Coins{}: the empty coin set
				return adv()
			}
			at := i.X.Type().Underlying().(*types.Pointer).Elem().Underlying().(*types.Array)
			opaque, ifaces := false, IfaceArr{map[int]Iface{}}
			_, elemIsIface := at.Elem().Underlying().(*types.Interface)
			if namedOf(at.Elem()) == tyAuction || scalarSort(at.Elem()) != "" {
				elemIsIface = false // auctions are records, listener references are scalars
			}
			for k := 0; k < n; k++ {
				switch e := arr.F[fmt.Sprint(k)].(type) {
				case Opq:
					opaque = true
				case Iface:
					if namedOf(at.Elem()) != tyAuction {
						ifaces.E[k] = e
					}
				default:
					if elemIsIface {
						ifaces.E[k] = Iface{V: e}
					}
				}
			}
			if opaque {
				fr.env[i] = Sl{0, fmt.Sprint(n), Opq{"opaque elements"}}
				return adv()
			}
			if len(ifaces.E) == n && n > 0 {
				fr.env[i] = Sl{0, fmt.Sprint(n), ifaces}
				return adv()
			}
			el := x.zero(s, at.Elem(), func(so string) string { return arrSort("Int", so) })
			for k := 0; k < n; k++ {
				ev := x.flat(s, arr.F[fmt.Sprint(k)])
				x.checkNoNil(s, ev, "slice literal")
				el = stoV(el, ev, fmt.Sprint(k))
			}
			id := x.newID()
			s.arrs[id] = el
			fr.env[i] = Sl{id, fmt.Sprint(n), nil}
		case Sl:
			if hi >= 0 {
				x.fail("reslicing a slice: %s", i)
			}
			fr.env[i] = base
		default:
			x.fail("slice of %T", base)
		}
		return adv()
	case *ssa.Lookup:
		if _, isMap := i.X.Type().Underlying().(*types.Map); !isMap {
			x.fail("string indexing")
		}
		mv := x.val(s, i.X).(MapV)
		k := tm(x.val(s, i.Index))
		var v Val
		has := "false"
		mt := i.X.Type().Underlying().(*types.Map)
		if mv.ID == 0 {
			v = x.zero(s, mt.Elem(), idWrap)
		} else {
			m := s.maps[mv.ID]
			has = sSel(m.Dom, k)
			if m.PtrElem {
				if i.CommaOk {
					v = PCell{mv.ID, k, nil}
				} else {
					x.fail("non comma-ok lookup in a pointer map")
				}
			} else {
				v = iteV(has, selV(m.Val, k), x.zero(s, mt.Elem(), idWrap))
			}
		}
		if i.CommaOk {
			fr.env[i] = Tuple{v, Sc{T: has, Sort: "Bool"}}
		} else {
			fr.env[i] = v
		}
		return adv()
	case *ssa.MapUpdate:
		mv := x.val(s, i.Map).(MapV)
		if mv.ID == 0 {
			x.emit(s, "nopanic", "nopanic.nilmap@"+x.site(s), nil, "false", "assignment to entry in nil map")
			s.dead = true
			x.paths++
			return false
		}
		m := s.maps[mv.ID]
		k := tm(x.val(s, i.Key))
		v := x.val(s, i.Value)
		if m.PtrElem { // ownership transfer of a freshly allocated object into the map cell
			pa, ok := v.(Ptr)
			if !ok || len(pa.Path) != 0 {
				x.fail("pointer map update with a non-fresh pointer")
			}
			v = s.objs[pa.Obj]
			delete(s.objs, pa.Obj)
			for _, f := range s.frames {
				for name, e := range f.env {
					if q, ok := e.(Ptr); ok && q.Obj == pa.Obj {
						f.env[name] = PCell{mv.ID, k, q.Path}
					}
				}
			}
		}
		fv := x.flat(s, v)
		x.checkNoNil(s, fv, "map")
		m.Dom = sStore(m.Dom, k, "true")
		m.Val = stoV(m.Val, fv, k)
		s.maps[mv.ID] = m
		return adv()
	case *ssa.Extract:
		tup, ok := x.val(s, i.Tuple).(Tuple)
		if !ok {
			x.fail("extract from %T", x.val(s, i.Tuple))
		}
		fr.env[i] = tup[i.Index]
		return adv()
	case *ssa.UnOp:
		switch i.Op {
		case token.MUL:
			fr.env[i] = x.load(s, x.val(s, i.X), i.Type())
			if s.dead {
				x.paths++
				return false
			}
		case token.NOT:
			fr.env[i] = Sc{T: sNot(tm(x.val(s, i.X))), Sort: "Bool"}
		case token.SUB:
			fr.env[i] = Sc{T: wrapInt("(- "+tm(x.val(s, i.X))+")", i.Type()), Sort: "Int"}
		default:
			x.fail("unop %s", i.Op)
		}
		return adv()
	case *ssa.BinOp:
		fr.env[i] = x.binop(s, i)
		return adv()
	case *ssa.Convert:
		fr.env[i] = x.convert(s, i)
		return adv()
	case *ssa.ChangeType:
		fr.env[i] = x.changeType(s, x.val(s, i.X), i.X.Type(), i.Type())
		return adv()
	case *ssa.MakeInterface:
		fr.env[i] = x.makeInterface(s, x.val(s, i.X), i.X.Type(), i.Type())
		return adv()
	case *ssa.ChangeInterface:
		fr.env[i] = x.val(s, i.X)
		return adv()
	case *ssa.TypeAssert:
		return x.typeAssert(s, i)
	case *ssa.Range:
		x.startRange(s, i)
		return adv()
	case *ssa.Next:
		x.next(s, i)
		return adv()
	case *ssa.Defer:
		if x.effectFreeCall(i.Common()) {
			return adv()
		}
		x.fail("defer of %s", i.Common().String())
	case *ssa.RunDefers:
		return adv()
	case *ssa.Go, *ssa.Select, *ssa.Send:
		x.fail("outside subset: %T", in)
	case *ssa.Panic:
		x.emit(s, "nopanic", "nopanic.panic@"+x.site(s), nil, "false", "explicit panic reachable")
		x.paths++
		return false
	case *ssa.Call:
		return x.call(s, i)
	case *ssa.If:
		c := tm(x.val(s, i.Cond))
		b := fr.block
		if c == "true" {
			x.gotoBlock(s, b.Succs[0])
			return true
		}
		if c == "false" {
			x.gotoBlock(s, b.Succs[1])
			return true
		}
		// cheap syntactic pruning: the condition (or its negation) is already a conjunct of the path condition
		if s.knows(c) {
			x.gotoBlock(s, b.Succs[0])
			return true
		}
		if s.knows(sNot(c)) {
			x.gotoBlock(s, b.Succs[1])
			return true
		}
		s2 := s.clone()
		s.assume(c)
		x.gotoBlock(s, b.Succs[0])
		s2.assume(sNot(c))
		// leaving a counting loop: not (i < n) together with the known i <= n gives i = n; stating the equality
		// lets the solvers identify sum(.., i) with sum(.., n) by congruence
		if strings.HasPrefix(c, "(< ") {
			if parts := splitTop(c[3 : len(c)-1]); len(parts) == 2 && s2.knowsDeep("(<= "+parts[0]+" "+parts[1]+")") {
				s2.assume("(= " + parts[0] + " " + parts[1] + ")")
			}
		}
		x.gotoBlock(s2, b.Succs[1])
		x.exec(s)
		x.exec(s2)
		return false
	case *ssa.Jump:
		x.gotoBlock(s, fr.block.Succs[0])
		return true
	case *ssa.Return:
		var res []Val
		for _, r := range i.Results {
			res = append(res, x.val(s, r))
		}
		return x.ret(s, res)
	}
	x.fail("unsupported instruction %T: %s", in, in)
	return false
}

func (x *X) ret(s *State, res []Val) bool {
	fr := s.top()
	if len(s.frames) == 1 {
		x.checkEnsures(s, res)
		x.paths++
		return false
	}
	s.frames = s.frames[:len(s.frames)-1]
	if fr.kont != nil {
		fr.kont.resume(x, s, res)
		return false
	}
	x.bindResult(s, fr.call, res)
	return true
}

// bindResult stores call results into the (new) top frame and advances past the call.
func (x *X) bindResult(s *State, call ssa.Value, res []Val) {
	fr := s.top()
	if call != nil {
		switch len(res) {
		case 0:
			fr.env[call] = Tuple{}
		case 1:
			fr.env[call] = res[0]
		default:
			fr.env[call] = Tuple(res)
		}
	}
	fr.idx++
}

func (x *X) binop(s *State, i *ssa.BinOp) Val {
	l, r := x.val(s, i.X), x.val(s, i.Y)
	switch i.Op {
	case token.EQL, token.NEQ:
		e := x.eqGo(s, l, r, i.X.Type())
		if i.Op == token.NEQ {
			e = sNot(e)
		}
		return Sc{T: e, Sort: "Bool"}
	}
	ls, lok := l.(Sc)
	rs, rok := r.(Sc)
	if !lok || !rok {
		x.fail("binop %s on %T, %T", i.Op, l, r)
	}
	if ls.Sort == "Str" {
		switch i.Op {
		case token.ADD:
			return Sc{T: sApp("strcat", ls.T, rs.T), Sort: "Str"}
		}
		x.fail("string binop %s", i.Op)
	}
	if ls.Sort == "Bool" {
		switch i.Op {
		case token.AND:
			return Sc{T: sAnd(ls.T, rs.T), Sort: "Bool"}
		case token.OR:
			return Sc{T: sOr(ls.T, rs.T), Sort: "Bool"}
		}
		x.fail("bool binop %s", i.Op)
	}
	switch i.Op {
	case token.LSS:
		return Sc{T: sApp("<", ls.T, rs.T), Sort: "Bool"}
	case token.LEQ:
		return Sc{T: sApp("<=", ls.T, rs.T), Sort: "Bool"}
	case token.GTR:
		return Sc{T: sApp(">", ls.T, rs.T), Sort: "Bool"}
	case token.GEQ:
		return Sc{T: sApp(">=", ls.T, rs.T), Sort: "Bool"}
	case token.ADD:
		return x.machineArith(s, sApp("+", ls.T, rs.T), i.Type())
	case token.SUB:
		return x.machineArith(s, sApp("-", ls.T, rs.T), i.Type())
	case token.MUL:
		return x.machineArith(s, sApp("*", ls.T, rs.T), i.Type())
	case token.QUO:
		x.emit(s, "nopanic", "nopanic.divzero@"+x.site(s), nil, sNot(sEq(rs.T, "0")), "integer division by zero")
		return Sc{T: wrapInt(sApp("tdiv", ls.T, rs.T), i.Type()), Sort: "Int"}
	case token.REM:
		x.emit(s, "nopanic", "nopanic.divzero@"+x.site(s), nil, sNot(sEq(rs.T, "0")), "integer division by zero")
		return Sc{T: sApp("trem", ls.T, rs.T), Sort: "Int"}
	}
	x.fail("binop %s", i.Op)
	return nil
}

// eqGo is Go's == on two values of static type t.
func (x *X) eqGo(s *State, l, r Val, t types.Type) string {
	switch a := l.(type) {
	case Er:
		if b, ok := r.(Er); ok {
			if b.Nil == "true" {
				return a.Nil
			}
			if a.Nil == "true" {
				return b.Nil
			}
			return sAnd(sEq(a.Nil, b.Nil), sImp(sNot(a.Nil), sEq(a.Kind, b.Kind)))
		}
	case Ptr:
		if b, ok := r.(Ptr); ok {
			if a.Obj == b.Obj && strings.Join(a.Path, ".") == strings.Join(b.Path, ".") {
				return "true"
			}
			return "false"
		}
	case PCell:
		if b, ok := r.(Ptr); ok && b.Obj == 0 {
			return "false"
		}
	case Iface:
		if b, ok := r.(Iface); ok {
			an, bn := x.ifaceNil(a), x.ifaceNil(b)
			if bn == "true" {
				return an
			}
			if an == "true" {
				return bn
			}
		}
	case Opq:
		if b, ok := r.(Iface); ok && x.ifaceNil(b) == "true" {
			// opaque interface compared with nil: a fresh unknown
			return x.opqNil(s, a)
		}
		if b, ok := r.(Opq); ok && strings.HasPrefix(b.Why, "zero") {
			return x.opqNil(s, a)
		}
	case Sl:
		if b, ok := r.(Sl); ok && b.Len == "0" && b.ID == 0 {
			return x.V.fresh(x, "slice.isnil", "Bool")
		}
	case MapV:
		if b, ok := r.(MapV); ok && b.ID == 0 {
			if a.ID == 0 {
				return "true"
			}
			return "false"
		}
	case Sc:
		if b, ok := r.(Sc); ok {
			return sEq(a.T, b.T)
		}
		if b, ok := r.(Iface); ok && a.Sort == "Ref" {
			// a listener reference against an interface value of known dynamic type: equal only if both are nil
			return sAnd(sEq(a.T, "nilref"), x.ifaceNil(b))
		}
	case St:
		if b, ok := r.(St); ok {
			return x.eqV(x.flat(s, a), x.flat(s, b))
		}
	}
	x.fail("== on %T and %T", l, r)
	return ""
}

func (x *X) ifaceNil(a Iface) string {
	if a.Kind != "" {
		return sEq(a.Kind, "0")
	}
	if a.Dyn == nil && a.V == nil {
		return "true"
	}
	return "false"
}

func (x *X) opqNil(s *State, o Opq) string {
	// identity of opaque interface values is tracked by name: the same field gives the same answer on every path
	if t, ok := x.opqNils[o.Why]; ok {
		return t
	}
	t := x.sym("isnil."+o.Why, "Bool")
	x.opqNils[o.Why] = t
	return t
}

func (x *X) convert(s *State, i *ssa.Convert) Val {
	v := x.val(s, i.X)
	from, to := i.X.Type(), i.Type()
	if tb, ts, ok := intRange(to); ok {
		if fb, fs, ok2 := intRange(from); ok2 {
			// widening conversions keep the value; narrowing ones must stay in range (obligation, like overflow)
			if (fs == ts && fb <= tb) || (!fs && ts && fb < tb) {
				return Sc{T: tm(v), Sort: "Int"}
			}
			return x.machineArith(s, tm(v), to)
		}
	}
	if scalarSort(from) == "Str" && scalarSort(to) == "Str" {
		return v
	}
	// []byte(string) and string([]byte): opaque but functional
	if scalarSort(from) == "Str" {
		if _, ok := to.Underlying().(*types.Slice); ok {
			return Opq{"bytes:" + tm(v)}
		}
	}
	if namedOf(to) == tyAddr {
		if o, ok := v.(Opq); ok {
			return Sc{T: x.V.fresh(x, "addr."+o.Why, "Addr"), Sort: "Addr"}
		}
	}
	if sv, ok := v.(Sc); ok && scalarSort(from) == scalarSort(to) {
		return sv
	}
	x.fail("conversion %s -> %s", from, to)
	return nil
}

func (x *X) changeType(s *State, v Val, from, to types.Type) Val {
	return v
}

func (x *X) makeInterface(s *State, v Val, from, to types.Type) Val {
	if isErrorType(to) {
		if e, ok := v.(Er); ok {
			return e
		}
		// a concrete error value (e.g. *errors.Error): non-nil error of a kind determined by the value
		return Er{"false", x.V.errKindOf(x, s, v, from)}
	}
	if namedOf(to) == tyAuction || x.V.implementsAuction(from) {
		if p, ok := v.(Ptr); ok {
			return Iface{Dyn: from, V: p, Kind: x.V.auctionKind(from)}
		}
	}
	return Iface{Dyn: from, V: v}
}

func (x *X) typeAssert(s *State, i *ssa.TypeAssert) bool {
	fr := s.top()
	v := x.val(s, i.X)
	iv, ok := v.(Iface)
	if !ok {
		if _, isI := i.AssertedType.Underlying().(*types.Interface); isI {
			// interface-to-interface assertion on an opaque value
			if i.CommaOk {
				fr.env[i] = Tuple{v, Sc{T: x.sym("assert.ok", "Bool"), Sort: "Bool"}}
			} else {
				fr.env[i] = v
			}
			fr.idx++
			return true
		}
		x.fail("type assertion on %T", v)
	}
	var okT string
	var payload Val = iv.V
	if iv.Kind != "" {
		k := x.V.auctionKind(i.AssertedType)
		if k == "" {
			if namedOf(i.AssertedType) == tyAuction {
				okT = sNot(sEq(iv.Kind, "0"))
				payload = iv
			} else {
				x.fail("assertion of AuctionI to %s", i.AssertedType)
			}
		} else {
			okT = sEq(iv.Kind, k)
		}
	} else if iv.Dyn != nil {
		if types.Identical(iv.Dyn, i.AssertedType) {
			okT = "true"
		} else if it, isI := i.AssertedType.Underlying().(*types.Interface); isI && types.Implements(iv.Dyn, it) {
			okT = "true"
			payload = iv
		} else {
			okT = "false"
		}
	} else {
		okT = "false"
	}
	if i.CommaOk {
		if okT != "true" && okT != "false" {
			// fork so that the payload is only used on the matching branch
		}
		fr.env[i] = Tuple{payload, Sc{T: okT, Sort: "Bool"}}
	} else {
		x.emit(s, "nopanic", "nopanic.typeassert@"+x.site(s), nil, okT, "type assertion "+i.AssertedType.String())
		s.assume(okT)
		fr.env[i] = payload
	}
	fr.idx++
	return true
}

// ---------------------------------------------------------------- range over Go maps

func (x *X) startRange(s *State, i *ssa.Range) {
	fr := s.top()
	mt, isMap := i.X.Type().Underlying().(*types.Map)
	if !isMap {
		x.fail("range over %s", i.X.Type())
	}
	mv := x.val(s, i.X).(MapV)
	it := &IterState{MapID: mv.ID, Idx: "0"}
	ks := smtSort(scalarSort(mt.Key()))
	it.KSort = ks
	if mv.ID == 0 {
		it.N = "0"
		it.K = constArr(arrSort("Int", ks), ks, x.sym("nokey", ks))
		it.Dom = constArr(arrSort(ks, "Bool"), "Bool", "false")
		it.Val = x.zero(s, mt.Elem(), func(so string) string { return arrSort(ks, so) })
	} else {
		m := s.maps[mv.ID]
		it.Dom, it.Val = m.Dom, m.Val
		it.N = x.sym("range.n", "Int")
		it.K = x.sym("range.keys", arrSort("Int", ks))
		pos := x.declFun("range.pos", []string{ks}, "Int")
		it.Pos = pos
		j1, j2, k := x.bound("j", "Int"), x.bound("j", "Int"), x.bound("k", ks)
		// an arbitrary duplicate-free enumeration of the domain: Go leaves the order unspecified
		s.assume(fmt.Sprintf("(and (<= 0 %s) (< %s 281474976710656))", it.N, it.N))
		s.assume(fmt.Sprintf("(forall ((%s Int)) (! (=> (and (<= 0 %s) (< %s %s)) (and (select %s (select %s %s)) (= (%s (select %s %s)) %s))) :pattern ((select %s %s))))",
			j1, j1, j1, it.N, it.Dom, it.K, j1, pos, it.K, j1, j1, it.K, j1))
		s.assume(fmt.Sprintf("(forall ((%s %s)) (! (=> (select %s %s) (and (<= 0 (%s %s)) (< (%s %s) %s) (= (select %s (%s %s)) %s))) :pattern ((%s %s))))",
			k, ks, it.Dom, k, pos, k, pos, k, it.N, it.K, pos, k, k, pos, k))
		_ = j2
	}
	s.iters[i] = it
	// the enumeration stays nameable after the loop: rangeKeys<k> (a list), rangePos<k>(key) for the loop with ordinal k
	if h := x.iterHeader(i); h != nil {
		if ord, ok := x.loopOrd[h]; ok {
			s.lets[fmt.Sprintf("rangeKeys%d", ord)] = Sl{0, it.N, Sc{T: it.K, Sort: arrSort("Int", ks)}}
			if it.Pos != "" {
				s.lets[fmt.Sprintf("rangePos%d", ord)] = Opq{"fn:" + it.Pos}
			}
		}
	}
	fr.env[i] = Opq{"iterator"}
}

func (x *X) next(s *State, i *ssa.Next) {
	fr := s.top()
	r, ok := i.Iter.(*ssa.Range)
	if !ok || i.IsString {
		x.fail("next on a non-map iterator")
	}
	it := s.iters[r]
	okT := sApp("<", it.Idx, it.N)
	key := sSel(it.K, it.Idx)
	mt := r.X.Type().Underlying().(*types.Map)
	var v Val
	if it.MapID != 0 && s.maps[it.MapID].PtrElem {
		v = PCell{it.MapID, key, nil}
	} else {
		v = selV(it.Val, key)
	}
	_ = mt
	fr.env[i] = Tuple{Sc{T: okT, Sort: "Bool"}, Sc{T: key, Sort: it.KSort}, v}
	it.Idx = sApp("+", it.Idx, "1")
}

// ---------------------------------------------------------------- verification of one function

type VerifyResult struct {
	Key       string
	Obligs    []*Oblig
	Paths     int
	Undecided string
	Inlined   []string
	Externs   []string
	Assumed   []string
}

func (x *X) verify() (res *VerifyResult) {
	res = &VerifyResult{Key: x.key}
	defer func() {
		if r := recover(); r != nil {
			if u, ok := r.(unsupported); ok {
				res.Undecided = u.msg
				res.Obligs = nil
				return
			}
			// any other failure of the executor on this function (a value shape it does not expect) also means that the
			// function is outside its reach: reported as such, never as a crash of the whole check
			res.Undecided = fmt.Sprintf("the executor failed on this function: %v", r)
			if os.Getenv("GOVC_DEBUG") != "" {
				fmt.Fprintf(os.Stderr, "executor failure: %v\n%s\n", r, debug.Stack())
			}
			res.Obligs = nil
		}
	}()
	s := &State{objs: map[int]Val{}, arrs: map[int]Val{}, maps: map[int]MapS{}, ghost: map[string]Val{}, iters: map[ssa.Value]*IterState{}, lets: map[string]Val{}}
	x.V.initGhost(x, s)
	fr := &Frame{fn: x.fn, env: map[ssa.Value]Val{}, block: x.fn.Blocks[0]}
	s.frames = []*Frame{fr}
	x.params = map[string]Val{}
	for _, p := range x.fn.Params {
		v := x.mk(s, p.Name(), p.Type(), idWrap, false)
		if sc, ok := v.(Sc); ok && namedOf(p.Type()) == "" {
			s.assume(rangeFact(sc.T, p.Type()))
		}
		fr.env[p] = v
		x.params[p.Name()] = v
		if x.entryParams == nil {
			x.entryParams = map[string]Val{}
		}
		x.entryParams[p.Name()] = v
	}
	for _, fv := range x.fn.FreeVars {
		// closure verified on its own: captured variables are fresh cells
		v := x.mk(s, fv.Name(), fv.Type(), idWrap, false)
		fr.env[fv] = v
		x.params[fv.Name()] = v
	}
	x.loopOrd = loopOrdinals(x.fn)
	x.entry = s.snapshot()
	x.entry.frames = []*Frame{{fn: x.fn, env: fr.env}}
	for k, c := range x.ct.Requires {
		_ = k
		s.assume(x.evalClause(s, c, evalCtx{assuming: true, pre: true}))
	}
	x.entry.pc = append([]string{}, s.pc...)
	// vacuity witness: the precondition must be satisfiable
	o := &Oblig{Name: x.key + "#vacuity.requires-satisfiable", Fn: x.key, Kind: "vacuity", Goal: "false", PC: visiblePC(s.pc, ""), Vacuity: true}
	o.Decls = x.decls[:len(x.decls):len(x.decls)]
	x.obligs = append(x.obligs, o)
	x.exec(s)
	res.Obligs = x.obligs
	res.Paths = x.paths
	for k := range x.inlined {
		res.Inlined = append(res.Inlined, k)
	}
	for k := range x.externs {
		res.Externs = append(res.Externs, k)
	}
	for k := range x.assumed {
		res.Assumed = append(res.Assumed, k)
	}
	sort.Strings(res.Inlined)
	sort.Strings(res.Externs)
	sort.Strings(res.Assumed)
	return res
}

func (x *X) checkEnsures(s *State, res []Val) {
	fr := s.top()
	x.retVals = res
	defer func() { x.retVals = nil }()
	for _, c := range x.ct.Sets {
		// ghost assignment at the return: the named ghost variable takes the value of the expression
		s.ghost[c.LetVar] = x.flat(s, x.newEv(s, evalCtx{results: res, post: true}).eval(c.Expr))
	}
	for k, c := range x.ct.Exits {
		g := x.evalClause(s, c, evalCtx{results: res, post: true, loopHeader: fr.block})
		name := c.Name
		if name == "" {
			name = fmt.Sprintf("exit%d", k)
		}
		x.emit(s, "ensures", fmt.Sprintf("%s@b%d", name, fr.block.Index), c.Labels, g, c.Text)
		if c.Group == "" {
			s.assumeG("+", g)
		} else {
			s.assumeG(c.Group, g)
		}
	}
	for k, c := range x.ct.Ensures {
		if c.Assumed {
			continue
		}
		g := x.evalClause(s, c, evalCtx{results: res, post: true})
		name := c.Name
		if name == "" {
			name = fmt.Sprintf("ensures%d", k)
		}
		x.emit(s, "ensures", fmt.Sprintf("%s@b%d", name, fr.block.Index), c.Labels, g, c.Text)
		x.emitCover(s, c, name, res, fr.block.Index)
		// a postcondition established at this return may serve as a lemma for the later grouped ones (it is checked
		// on its own above, so nothing is taken for granted); ungrouped obligations never see these entries
		if c.Group == "" {
			s.assumeG("+", g)
		} else {
			s.assumeG(c.Group, g)
		}
	}
	x.checkFrame(s)
}

// knows: f is literally a conjunct of the path condition.
func (s *State) knows(f string) bool {
	for _, p := range s.pc {
		if p == f {
			return true
		}
		if strings.HasPrefix(p, "(and ") && strings.Contains(p, " "+f) {
			// top-level conjunct?
			for _, c := range splitTop(p[5 : len(p)-1]) {
				if c == f {
					return true
				}
			}
		}
	}
	return false
}

// knowsDeep: f is a conjunct (at any nesting depth of "and") of some path-condition entry.
func (s *State) knowsDeep(f string) bool {
	var in func(p string) bool
	in = func(p string) bool {
		if p == f {
			return true
		}
		if strings.HasPrefix(p, "(and ") && strings.Contains(p, f) {
			for _, c := range splitTop(p[5 : len(p)-1]) {
				if in(c) {
					return true
				}
			}
		}
		return false
	}
	for _, p := range s.pc {
		_, q := pcEntry(p)
		if in(q) {
			return true
		}
	}
	return false
}

func splitTop(s string) []string {
	var out []string
	d, st := 0, 0
	inBar := false
	for i := 0; i < len(s); i++ {
		c := s[i]
		if c == '|' {
			inBar = !inBar
		}
		if inBar {
			continue
		}
		switch c {
		case '(':
			d++
		case ')':
			d--
		case ' ':
			if d == 0 {
				if i > st {
					out = append(out, s[st:i])
				}
				st = i + 1
			}
		}
	}
	if st < len(s) {
		out = append(out, s[st:])
	}
	return out
}

// machineArith: the result of a machine-integer operation. Wrap-around is treated like a panic: staying inside the
// type's range is an obligation ("nopanic.overflow"), after which the mathematical value is used.
func (x *X) machineArith(s *State, e string, t types.Type) Val {
	if _, _, ok := intRange(t); !ok {
		return Sc{T: e, Sort: "Int"}
	}
	f := rangeFact(e, t)
	x.emit(s, "nopanic", "nopanic.overflow@"+x.site(s), nil, f, "machine integer overflow / wrap-around")
	s.assume(f)
	return Sc{T: e, Sort: "Int"}
}

const abbrevLimit = 96

// abbrev replaces long scalar terms inside v by fresh constants defined equal to them.
func (x *X) abbrev(s *State, v Val, hint string) Val {
	if x.noAbbrev > 0 {
		return v // inside a schema that generalises over a generic position: definitions would capture it
	}
	switch y := v.(type) {
	case Sc:
		if len(y.T) <= abbrevLimit {
			return y
		}
		so := x.sortOfTerm(y.T, "")
		if so == "" {
			return y
		}
		n := x.sym("v."+hint, so)
		s.assume(sEq(n, y.T))
		return Sc{T: n, Sort: y.Sort, Nil: y.Nil}
	case St:
		changed := false
		r := St{map[string]Val{}}
		for k, f := range y.F {
			nf := x.abbrev(s, f, hint+"."+k)
			r.F[k] = nf
			if !sameVal(nf, f) {
				changed = true
			}
		}
		if !changed {
			return y
		}
		return r
	case Sl:
		if y.ID != 0 {
			return y
		}
		nl := x.abbrev(s, Sc{T: y.Len, Sort: "Int"}, hint+".len").(Sc)
		var ne Val = y.Elem
		if y.Elem != nil {
			if _, isOpq := y.Elem.(Opq); !isOpq {
				if _, isIA := y.Elem.(IfaceArr); !isIA {
					ne = x.abbrev(s, y.Elem, hint+".e")
				}
			}
		}
		return Sl{0, nl.T, ne}
	case Tuple:
		r := make(Tuple, len(y))
		for i, e := range y {
			r[i] = x.abbrev(s, e, fmt.Sprintf("%s.%d", hint, i))
		}
		return r
	case Er:
		n := x.abbrev(s, Sc{T: y.Nil, Sort: "Bool"}, hint+".isnil").(Sc)
		k := x.abbrev(s, Sc{T: y.Kind, Sort: "Int"}, hint+".kind").(Sc)
		return Er{n.T, k.T}
	}
	return v
}

func sameVal(a, b Val) bool {
	as, ok1 := a.(Sc)
	bs, ok2 := b.(Sc)
	if ok1 && ok2 {
		return as.T == bs.T
	}
	return false
}

// emitCover: for a postcondition of the form "A ==> B" a reachability witness "the path condition and A are
// satisfiable at this return" (quantifier-free part only). The check requires at least one return path per clause on
// which the witness is not refuted.
func (x *X) emitCover(s *State, c *Clause, name string, res []Val, block int) {
	call, ok := c.Expr.(*ast.CallExpr)
	if !ok {
		return
	}
	id, ok := call.Fun.(*ast.Ident)
	if !ok || id.Name != "imp" || len(call.Args) != 2 {
		return
	}
	var ante string
	func() {
		defer func() {
			if r := recover(); r != nil {
				ante = ""
			}
		}()
		ev := x.newEv(s, evalCtx{results: res, post: true, assuming: true})
		v := ev.eval(call.Args[0])
		if sc, ok := v.(Sc); ok && sc.Sort == "Bool" {
			ante = sc.T
		}
	}()
	if ante == "" || ante == "false" || strings.Contains(ante, "(forall ") || strings.Contains(ante, "(exists ") {
		if ante == "false" {
			return
		}
		ante = "true" // not expressible without quantifiers: only the path itself must be reachable
	}
	o := &Oblig{Name: fmt.Sprintf("%s#cover.%s@b%d.%d", x.key, name, block, len(x.obligs)), Fn: x.key, Kind: "cover", Goal: "false",
		PC: append(visiblePC(s.pc, c.Group), ante), Vacuity: true, Clause: "antecedent reachable: " + c.Text}
	o.Decls = x.decls[:len(x.decls):len(x.decls)]
	x.obligs = append(x.obligs, o)
}

// emitPathCover: "the quantifier-free part of the path condition is satisfiable here"; judged per name over all paths.
func (x *X) emitPathCover(s *State, name string, block int) {
	o := &Oblig{Name: fmt.Sprintf("%s#cover.%s@b%d.%d", x.key, name, block, len(x.obligs)), Fn: x.key, Kind: "cover", Goal: "false",
		PC: visiblePC(s.pc, ""), Vacuity: true, Clause: "reachable: " + name}
	o.Decls = x.decls[:len(x.decls):len(x.decls)]
	x.obligs = append(x.obligs, o)
}

// unrollStep: a range loop over a slice whose length is a literal (a composite literal table) needs no invariant: it is
// executed iteration by iteration -- exact, not a bound, because the loop condition compares two literals and decides
// itself. Anything else (symbolic length, hand-written condition) is refused, and so is a table of more than 32 entries.
func (x *X) unrollStep(s *State, h *ssa.BasicBlock) bool {
	fr := s.top()
	var idx *ssa.Phi
	for _, in := range h.Instrs {
		if p, ok := in.(*ssa.Phi); ok && p.Comment == "rangeindex" {
			idx = p
		}
	}
	if idx == nil {
		if os.Getenv("GOVC_DEBUG") != "" {
			fmt.Fprintf(os.Stderr, "unrollStep b%d: no rangeindex phi; instrs: %v\n", h.Index, h.Instrs)
		}
		return false
	}
	// the loop condition: rangeindex+1 < len, with len evaluated to a literal before the loop
	dbg := func(msg string, a ...interface{}) bool {
		if os.Getenv("GOVC_DEBUG") != "" {
			fmt.Fprintf(os.Stderr, "unrollStep b%d: "+msg+"\n", append([]interface{}{h.Index}, a...)...)
		}
		return false
	}
	iff, ok := h.Instrs[len(h.Instrs)-1].(*ssa.If)
	if !ok {
		return dbg("header does not end in If")
	}
	cmp, ok := iff.Cond.(*ssa.BinOp)
	if !ok || cmp.Op != token.LSS {
		return dbg("condition %v", iff.Cond)
	}
	var lv Val
	if c, isC := cmp.Y.(*ssa.Const); isC && c.Value != nil {
		lv = Sc{T: fmt.Sprint(c.Int64()), Sort: "Int"}
	} else {
		lv = x.tryVal(s, cmp.Y)
	}
	lsc, ok := lv.(Sc)
	if !ok || !isDigits(lsc.T) {
		return dbg("length %#v of %v; header %v", lv, cmp.Y, h.Instrs)
	}
	var n int
	fmt.Sscan(lsc.T, &n)
	if n > 32 {
		return false
	}
	cur, ok := fr.env[idx].(Sc)
	if os.Getenv("GOVC_DEBUG") != "" {
		fmt.Fprintf(os.Stderr, "unrollStep b%d: len=%q idx=%#v\n", h.Index, lsc.T, fr.env[idx])
	}
	if !ok || !(isDigits(cur.T) || cur.T == "(- 1)" || cur.T == "-1") {
		return false
	}
	if s.unroll == nil {
		s.unroll = map[*ssa.BasicBlock]int{}
	}
	s.unroll[h]++
	return s.unroll[h] <= n+2
}

// literalIndex: an array index that is a constant, or evaluates to a literal on this path (an unrolled loop counter).
func (x *X) literalIndex(s *State, v ssa.Value) (string, bool) {
	if c, ok := v.(*ssa.Const); ok && c.Value != nil {
		return c.Value.ExactString(), true
	}
	if sc, ok := x.tryVal(s, v).(Sc); ok {
		if n, isLit := smallLit(sc.T); isLit && n >= 0 {
			return fmt.Sprint(n), true
		}
	}
	return "", false
}
