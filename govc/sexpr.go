package main

// A small s-expression layer over the SMT term strings: parsing, printing, sort inference. Used to turn the
// bodies of sum(...) terms into closed functions of explicit parameters.

import (
	"fmt"
	"strings"
)

type sx struct {
	atom string
	kids []*sx
}

func (e *sx) isAtom() bool { return e.kids == nil }

func (e *sx) String() string {
	if e.isAtom() {
		return e.atom
	}
	parts := make([]string, len(e.kids))
	for i, k := range e.kids {
		parts[i] = k.String()
	}
	return "(" + strings.Join(parts, " ") + ")"
}

func parseSx(s string) (*sx, error) {
	p := &sxParser{s: s}
	e, err := p.parse()
	if err != nil {
		return nil, err
	}
	p.skip()
	if p.i != len(s) {
		return nil, fmt.Errorf("trailing text in %q", s)
	}
	return e, nil
}

type sxParser struct {
	s string
	i int
}

func (p *sxParser) skip() {
	for p.i < len(p.s) && (p.s[p.i] == ' ' || p.s[p.i] == '\n' || p.s[p.i] == '\t') {
		p.i++
	}
}

func (p *sxParser) parse() (*sx, error) {
	p.skip()
	if p.i >= len(p.s) {
		return nil, fmt.Errorf("unexpected end of term")
	}
	if p.s[p.i] == '(' {
		p.i++
		e := &sx{kids: []*sx{}}
		for {
			p.skip()
			if p.i >= len(p.s) {
				return nil, fmt.Errorf("unbalanced term")
			}
			if p.s[p.i] == ')' {
				p.i++
				return e, nil
			}
			k, err := p.parse()
			if err != nil {
				return nil, err
			}
			e.kids = append(e.kids, k)
		}
	}
	st := p.i
	if p.s[p.i] == '|' {
		p.i++
		for p.i < len(p.s) && p.s[p.i] != '|' {
			p.i++
		}
		p.i++
		return &sx{atom: p.s[st:p.i]}, nil
	}
	for p.i < len(p.s) && p.s[p.i] != ' ' && p.s[p.i] != ')' && p.s[p.i] != '(' && p.s[p.i] != '\n' {
		p.i++
	}
	return &sx{atom: p.s[st:p.i]}, nil
}

func (e *sx) contains(atom string) bool {
	if e.isAtom() {
		return e.atom == atom
	}
	for _, k := range e.kids {
		if k.contains(atom) {
			return true
		}
	}
	return false
}

func isLiteralAtom(a string) bool {
	if a == "true" || a == "false" || a == "S" || a == "emptyStr" || a == "nilAddr" || a == "TIME_ZERO" || a == "noCoins" || a == "ERR_NOTFOUND" {
		return true
	}
	for _, c := range a {
		if c < '0' || c > '9' {
			return false
		}
	}
	return len(a) > 0
}

var boolOps = map[string]bool{"and": true, "or": true, "not": true, "=>": true, "=": true, "<": true, "<=": true, ">": true, ">=": true, "distinct": true,
	"forall": true, "exists": true, "validAddr": true, "validDenom": true, "isEscrow": true, "dense1": true, "dense0": true}
var intOps = map[string]bool{"+": true, "-": true, "*": true, "div": true, "mod": true, "tdiv": true, "trem": true, "min2": true, "max2": true, "absI": true,
	"ceilDiv": true, "chopTrunc": true, "chopRound": true, "chopRoundP": true, "decMul": true, "decMulTrunc": true, "decQuo": true, "decQuoTrunc": true,
	"decCeil": true, "decTruncInt": true, "addDays": true, "DecParse": true, "listN": true, "listPos": true, "ilistN": true, "ilistKey": true, "ilistPos": true,
	"escId": true, "idxOf": true, "escRole": true, "sprint2a": true, "sprintIIa": true, "sprintIIb": true, "sprintIinv": true, "unixNano": true, "strlen": true}
var strOps = map[string]bool{"strcat": true, "strOf": true, "DecString": true, "sprint2": true, "sprintII": true, "sprintI": true, "sprint2b": true, "boolName": true}
var addrOps = map[string]bool{"addrOf": true, "sellEsc": true, "payEsc": true, "vestEsc": true, "listKey": true}

// sortOfSx infers the SMT sort of a term; sym gives the sorts of declared symbols and bound variables.
func sortOfSx(e *sx, sym func(string) (string, bool)) (string, error) {
	if e.isAtom() {
		a := e.atom
		switch a {
		case "true", "false":
			return "Bool", nil
		case "S", "TIME_ZERO", "ERR_NOTFOUND":
			return "Int", nil
		case "emptyStr":
			return "Str", nil
		case "nilAddr":
			return "Addr", nil
		case "noCoins":
			return "(Array Str Int)", nil
		}
		if isLiteralAtom(a) {
			return "Int", nil
		}
		if strings.HasPrefix(a, "|str:") {
			return "Str", nil
		}
		if strings.HasPrefix(a, "|zarr:") {
			parts := strings.SplitN(strings.Trim(a, "|"), ":", 3)
			return strings.ReplaceAll(parts[1], "_", " "), nil
		}
		if s, ok := sym(a); ok {
			return s, nil
		}
		return "", fmt.Errorf("unknown symbol %s", a)
	}
	if len(e.kids) == 0 {
		return "", fmt.Errorf("empty application")
	}
	h := e.kids[0]
	if !h.isAtom() {
		// ((as const SORT) v)
		if len(h.kids) == 3 && h.kids[0].atom == "as" && h.kids[1].atom == "const" {
			return h.kids[2].String(), nil
		}
		return "", fmt.Errorf("unsupported head %s", h)
	}
	switch op := h.atom; {
	case boolOps[op]:
		return "Bool", nil
	case intOps[op]:
		return "Int", nil
	case strOps[op]:
		return "Str", nil
	case addrOps[op]:
		return "Addr", nil
	case op == "ite":
		return sortOfSx(e.kids[2], sym)
	case op == "select":
		as, err := sortOfSx(e.kids[1], sym)
		if err != nil {
			return "", err
		}
		return elemSort(as), nil
	case op == "store":
		return sortOfSx(e.kids[1], sym)
	case op == "let":
		return sortOfSx(e.kids[2], sym)
	default:
		if s, ok := sym(op); ok { // declared function: its result sort
			return s, nil
		}
	}
	return "", fmt.Errorf("cannot infer the sort of %s", e)
}

// abstractParams replaces the maximal subterms of e that do not contain the variable v (and are not literals)
// by parameters; equal subterms share a parameter. Returns the rewritten term and the argument terms in order.
func abstractParams(e *sx, v string, args *[]string, idx map[string]int) *sx {
	if !e.contains(v) {
		if e.isAtom() && isLiteralAtom(e.atom) {
			return e
		}
		str := e.String()
		i, ok := idx[str]
		if !ok {
			i = len(*args)
			idx[str] = i
			*args = append(*args, str)
		}
		return &sx{atom: fmt.Sprintf("p%d?", i)}
	}
	if e.isAtom() {
		return e
	}
	n := &sx{kids: make([]*sx, len(e.kids))}
	for i, k := range e.kids {
		if i == 0 && k.isAtom() {
			n.kids[i] = k // operator symbol
			continue
		}
		n.kids[i] = abstractParams(k, v, args, idx)
	}
	return n
}
