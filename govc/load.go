package main

import (
	"fmt"
	"go/constant"
	"go/types"
	"os"
	"sort"
	"strings"

	"golang.org/x/tools/go/packages"
	"golang.org/x/tools/go/ssa"
	"golang.org/x/tools/go/ssa/ssautil"
)

type Verifier struct {
	repo          string
	replayPkg     string
	replayImports map[string]string
	overlayFiles  map[string]string // overlay path -> replacement file (handed on to go test -overlay by the bounded checks)
	prog          *ssa.Program
	constMaps     map[*ssa.Global]*constMapInfo
	pkgs          []*packages.Package
	ssaPkgs       map[string]*ssa.Package
	cs            *Contracts
	fnByKey       map[string]*ssa.Function // pkgpath::key
	keyOfFn       map[*ssa.Function]string
	strConsts     map[string]string // literal -> SMT constant name
	strName       map[string]string // SMT constant name -> literal
	strOrder      []string
	ghostFuncs    map[string]func(ev *Ev, args []Val) Val
	overlay       map[string][]byte
	timeout       int
	tier          string
	seed          int
	keepQueries   string
	loadWhole     bool
}

func (V *Verifier) readFile(path string) ([]byte, error) {
	if b, ok := V.overlay[path]; ok {
		return b, nil
	}
	return os.ReadFile(path)
}

func (V *Verifier) load(patterns ...string) error {
	env := append(os.Environ(), "GOFLAGS=-mod=mod", "GOPROXY=off", "GOSUMDB=off", "GOTOOLCHAIN=local")
	cfg := &packages.Config{Mode: packages.LoadAllSyntax, Dir: V.repo, Env: env, BuildFlags: []string{"-tags=verif"}, Overlay: V.overlay}
	pkgs, err := packages.Load(cfg, patterns...)
	if err != nil {
		return err
	}
	nerr := 0
	packages.Visit(pkgs, nil, func(p *packages.Package) {
		for _, e := range p.Errors {
			if strings.HasPrefix(p.PkgPath, "github.com/tendermint/fundraising") {
				fmt.Fprintf(os.Stderr, "load error: %s: %v\n", p.PkgPath, e)
				nerr++
			}
		}
	})
	if nerr > 0 {
		return fmt.Errorf("%d errors while loading the repository (does it compile?)", nerr)
	}
	V.pkgs = pkgs
	prog, _ := ssautil.AllPackages(pkgs, ssa.GlobalDebug|ssa.InstantiateGenerics)
	prog.Build()
	V.prog = prog
	V.ssaPkgs = map[string]*ssa.Package{}
	for _, p := range prog.AllPackages() {
		V.ssaPkgs[p.Pkg.Path()] = p
	}
	V.fnByKey = map[string]*ssa.Function{}
	V.keyOfFn = map[*ssa.Function]string{}
	for fn := range ssautil.AllFunctions(prog) {
		pp := fnPkgPath(fn)
		if !strings.HasPrefix(pp, "github.com/tendermint/fundraising") {
			continue
		}
		if fn.Synthetic != "" && !strings.Contains(fn.Synthetic, "instance") {
			continue
		}
		k := fnKey(fn)
		V.fnByKey[pp+"::"+k] = fn
		V.keyOfFn[fn] = pp + "::" + k
	}
	return nil
}

func fnPkgPath(fn *ssa.Function) string {
	for f := fn; f != nil; f = f.Parent() {
		if f.Pkg != nil {
			return f.Pkg.Pkg.Path()
		}
		if f.Origin() != nil && f.Origin().Pkg != nil {
			return f.Origin().Pkg.Pkg.Path()
		}
	}
	return ""
}

// fnKey: "(Keeper).PlaceBid", "(*BaseAuction).SetStatus", "Match", "(Keeper).Auctions$1".
func fnKey(fn *ssa.Function) string {
	if fn.Parent() != nil {
		return fnKey(fn.Parent()) + strings.TrimPrefix(fn.Name(), fn.Parent().Name())
	}
	if recv := fn.Signature.Recv(); recv != nil {
		t := recv.Type()
		star := ""
		if p, ok := t.(*types.Pointer); ok {
			t, star = p.Elem(), "*"
		}
		n := t.String()
		if nt, ok := t.(*types.Named); ok {
			n = nt.Obj().Name()
		}
		return "(" + star + n + ")." + fn.Name()
	}
	return fn.Name()
}

func (V *Verifier) typesPkg() *types.Package {
	if p, ok := V.ssaPkgs[modTypes]; ok {
		return p.Pkg
	}
	return nil
}

func constantString(c *ssa.Const) string { return constant.StringVal(c.Value) }

// strLit interns a string literal as a distinct SMT constant of sort Str.
func (V *Verifier) strLit(s string) string {
	if s == "" {
		return "emptyStr"
	}
	if n, ok := V.strConsts[s]; ok {
		return n
	}
	clean := strings.Map(func(r rune) rune {
		if r >= 'a' && r <= 'z' || r >= 'A' && r <= 'Z' || r >= '0' && r <= '9' || r == '_' || r == '-' || r == '.' {
			return r
		}
		return '_'
	}, s)
	if len(clean) > 40 {
		clean = clean[:40]
	}
	n := fmt.Sprintf("|str:%s#%d|", clean, len(V.strConsts))
	V.strConsts[s] = n
	V.strName[n] = s
	V.strOrder = append(V.strOrder, n)
	return n
}

func (V *Verifier) fresh(x *X, prefix, sort string) string { return x.sym(prefix, sort) }

// errKindOf gives the error class of a concrete error value turned into an error interface.
func (V *Verifier) errKindOf(x *X, s *State, v Val, from types.Type) string {
	if sc, ok := v.(Sc); ok && sc.Sort == "Int" {
		return sc.T
	}
	if p, ok := v.(Ptr); ok {
		return fmt.Sprintf("%d", 1000+p.Obj)
	}
	if o, ok := v.(Opq); ok && strings.HasPrefix(o.Why, "errconst:") {
		return strings.TrimPrefix(o.Why, "errconst:")
	}
	return x.sym("errkind", "Int")
}

func (V *Verifier) sortedFnKeys() []string {
	var ks []string
	for k := range V.fnByKey {
		ks = append(ks, k)
	}
	sort.Strings(ks)
	return ks
}
