package main

// Interface method calls (invoke) and globals.

import (
	"fmt"
	"go/token"
	"go/types"
	"strings"

	"golang.org/x/tools/go/ssa"
	"golang.org/x/tools/go/ssa/ssautil"
)

func (x *X) invoke(s *State, i *ssa.Call, recv Val, m *types.Func, args []Val) bool {
	fr := s.top()
	finish := func(v Val) bool {
		if s.dead {
			x.paths++
			return false
		}
		fr.env[i] = v
		fr.idx++
		return true
	}
	tn := namedOf(i.Common().Value.Type())
	name := m.Name()
	switch {
	case tn == tyAuction:
		return x.invokeAuction(s, i, recv, m, args)
	case isErrorType(i.Common().Value.Type()) && name == "Error":
		return finish(Sc{T: x.sym("err.text", "Str"), Sort: "Str"})
	case strings.HasSuffix(tn, ".FundraisingHooks"):
		return finish(x.hookCall(s, name, m, args))
	case strings.HasSuffix(tn, ".BankKeeper"):
		return finish(x.bankCall(s, name, args))
	case strings.HasSuffix(tn, ".DistrKeeper"):
		return finish(x.distrCall(s, name, args))
	case tn == "cosmossdk.io/core/address.Codec" && name == "StringToBytes":
		t := tm(args[0])
		return finish(Tuple{Opq{"bytes:" + t}, Er{sApp("validAddr", t), "904"}})
	case tn == "cosmossdk.io/log.Logger":
		// logging has no effect on anything a contract can see; the keeper's logger is the one NewKeeper was given (never nil)
		switch name {
		case "With", "Impl":
			return finish(Opq{"logger"})
		case "Info", "Debug", "Warn", "Error":
			return finish(Tuple{})
		}
	case tn == "context.Context":
		return finish(Opq{"ctx." + name})
	case strings.HasSuffix(tn, "EventManagerI"):
		s.ghost["EventN"] = iv(sApp("+", tm(s.ghost["EventN"]), "1"))
		return finish(Tuple{})
	}
	x.fail("invoke %s.%s: no model", tn, name)
	return false
}

// invokeAuction dispatches an AuctionI method to the (*)BaseAuction method of the base object and executes its body.
func (x *X) invokeAuction(s *State, i *ssa.Call, recv Val, m *types.Func, args []Val) bool {
	iv, ok := recv.(Iface)
	if !ok {
		x.fail("AuctionI method on %T", recv)
	}
	if nilT := x.ifaceNil(iv); nilT != "false" {
		x.emit(s, "nopanic", "nopanic.nilauction@"+x.site(s), nil, sNot(nilT), "method call on a nil AuctionI")
		s.assume(sNot(nilT))
	}
	p, ok := iv.V.(Ptr)
	if !ok || p.Obj == 0 {
		x.fail("AuctionI without object")
	}
	outer := pathGet(s.objs[p.Obj], p.Path).(St)
	bp, ok := outer.F["BaseAuction"].(Ptr)
	if !ok || bp.Obj == 0 {
		x.emit(s, "nopanic", "nopanic.nilbase@"+x.site(s), nil, "false", "auction with nil BaseAuction")
		x.paths++
		return false
	}
	base := x.V.lookupType("BaseAuction")
	// pointer-receiver method?
	mset := x.V.prog.MethodSets.MethodSet(types.NewPointer(base))
	sel := mset.Lookup(m.Pkg(), m.Name())
	if sel == nil {
		x.fail("BaseAuction has no method %s", m.Name())
	}
	fn := x.V.prog.MethodValue(sel)
	if fn == nil {
		x.fail("no SSA for BaseAuction.%s", m.Name())
	}
	// MethodValue on *T for a value-receiver method yields a wrapper; call the underlying value method directly
	vset := x.V.prog.MethodSets.MethodSet(base)
	if vsel := vset.Lookup(m.Pkg(), m.Name()); vsel != nil {
		vfn := x.V.prog.MethodValue(vsel)
		x.inlined[normName(vfn.String())] = true
		x.pushFrame(s, vfn, append([]Val{x.flat(s, s.objs[bp.Obj])}, args...), nil, i, nil)
		return true
	}
	x.inlined[normName(fn.String())] = true
	x.pushFrame(s, fn, append([]Val{Ptr{bp.Obj, nil}}, args...), nil, i, nil)
	return true
}

// hookCall: a listener of another module. It may return any error, does not touch fundraising state or escrows (A5).
func (x *X) hookCall(s *State, name string, m *types.Func, args []Val) Val {
	ord := hookOrd[name]
	if ord == 0 {
		x.fail("unknown hook %s", name)
	}
	o := fmt.Sprint(ord)
	hn := tm(s.ghost["HookN"])
	s.ghost["HookN"] = Sc{T: sStore(hn, o, sApp("+", sSel(hn, o), "1")), Sort: "(Array Int Int)"}
	t := x.tick(s)
	s.ghost["HookT"] = Sc{T: sStore(tm(s.ghost["HookT"]), o, t), Sort: "(Array Int Int)"}
	// record the arguments (by parameter name)
	sig := m.Type().(*types.Signature)
	ha := s.ghost["HookArgs"].(St)
	rec := St{map[string]Val{}}
	for k, v := range ha.F[name].(St).F {
		rec.F[k] = v
	}
	for j := 1; j < sig.Params().Len() && j < len(args); j++ { // skip ctx
		pn := sig.Params().At(j).Name()
		if _, has := rec.F[pn]; has {
			rec.F[pn] = x.flat(s, args[j])
		}
	}
	nha := St{map[string]Val{}}
	for k, v := range ha.F {
		nha.F[k] = v
	}
	nha.F[name] = rec
	s.ghost["HookArgs"] = nha
	okT := x.sym("hook."+name+".ok", "Bool")
	s.ghost["HookOK"] = Sc{T: sAnd(tm(s.ghost["HookOK"]), okT), Sort: "Bool"}
	return Er{okT, x.sym("hook.errkind", "Int")}
}

func (x *X) loadGlobal(s *State, g *ssa.Global) Val {
	name := g.Pkg.Pkg.Path() + "." + g.Name()
	switch name {
	case modKeeper + ".EnableAddAllowedBidder":
		return s.ghost["EnableAddAllowedBidder"]
	case "cosmossdk.io/collections.ErrNotFound":
		return Er{"false", "ERR_NOTFOUND"}
	}
	t := g.Type().(*types.Pointer).Elem()
	if isErrorType(t) || strings.HasSuffix(t.String(), "cosmossdk.io/errors.Error") {
		// registered error values: one distinct class per global
		return Opq{"errconst:" + x.V.errClass(name)}
	}
	if scalarSort(t) != "" {
		key := "global:" + name
		if v, ok := s.ghost[key]; ok {
			return v
		}
		v := Sc{T: x.sym("g."+g.Name(), smtSort(scalarSort(t))), Sort: smtSort(scalarSort(t))}
		s.ghost[key] = v
		return v
	}
	if mt, isMap := t.Underlying().(*types.Map); isMap {
		// a table: a package-level map that the package initialiser fills from a literal with constant keys and values
		// and that nothing else in the program writes (the generated enum name tables are of this kind)
		if ents, ok := x.V.constMapGlobal(g); ok {
			key := "globalmap:" + name
			if v, has := s.ghost[key]; has {
				if mv, isMV := v.(MapV); isMV {
					if _, live := s.maps[mv.ID]; live {
						return mv
					}
				}
			}
			mv := x.newMap(s, "g."+g.Name(), mt, false)
			m := s.maps[mv.ID]
			for _, e := range ents {
				kv := x.constVal(s, e[0])
				vv := x.constVal(s, e[1])
				m.Dom = sStore(m.Dom, tm(kv), "true")
				m.Val = stoV(m.Val, vv, tm(kv))
			}
			s.maps[mv.ID] = m
			s.ghost[key] = mv
			return mv
		}
	}
	x.fail("load of global %s", name)
	return nil
}

// constMapGlobal: the (key, value) constants of a map global that is written once, by its package initialiser, with a
// freshly made map updated at constant keys with constant values; false if anything else may write it.
func (V *Verifier) constMapGlobal(g *ssa.Global) ([][2]*ssa.Const, bool) {
	if V.constMaps == nil {
		V.constMaps = map[*ssa.Global]*constMapInfo{}
	}
	if ci, ok := V.constMaps[g]; ok {
		return ci.ents, ci.ok
	}
	ci := &constMapInfo{}
	V.constMaps[g] = ci
	var mk *ssa.MakeMap
	stores := 0
	for fn := range ssautil.AllFunctions(V.prog) {
		if fn.Pkg == nil || fn.Blocks == nil {
			continue
		}
		for _, b := range fn.Blocks {
			for _, in := range b.Instrs {
				switch i := in.(type) {
				case *ssa.Store:
					if i.Addr == ssa.Value(g) {
						stores++
						m, isMk := i.Val.(*ssa.MakeMap)
						if !isMk || fn.Pkg != g.Pkg || fn.Name() != "init" || fn.Synthetic == "" {
							return nil, false
						}
						mk = m
					}
				case *ssa.UnOp:
					// a load of the table: only lookups and ranges may use it
					if i.X == ssa.Value(g) && i.Op == token.MUL && i.Referrers() != nil {
						for _, r := range *i.Referrers() {
							switch u := r.(type) {
							case *ssa.Lookup, *ssa.Range, *ssa.DebugRef:
							case *ssa.Call:
								if bi, isB := u.Common().Value.(*ssa.Builtin); isB && bi.Name() == "len" {
									continue
								}
								// the protobuf runtime reads the generated tables (EnumName) and keeps a reference for reflection (RegisterEnum)
								if f := u.Common().StaticCallee(); f != nil && (strings.HasSuffix(f.String(), "gogoproto/proto.EnumName") || strings.HasSuffix(f.String(), "gogoproto/proto.RegisterEnum")) {
									continue
								}
								return nil, false
							default:
								return nil, false
							}
						}
					}
				}
			}
		}
	}
	if stores != 1 || mk == nil || mk.Referrers() == nil {
		return nil, false
	}
	for _, r := range *mk.Referrers() {
		switch u := r.(type) {
		case *ssa.MapUpdate:
			k, kOK := u.Key.(*ssa.Const)
			v, vOK := u.Value.(*ssa.Const)
			if !kOK || !vOK || u.Map != ssa.Value(mk) {
				return nil, false
			}
			ci.ents = append(ci.ents, [2]*ssa.Const{k, v})
		case *ssa.Store:
			if u.Val != ssa.Value(mk) || u.Addr != ssa.Value(g) {
				return nil, false
			}
		case *ssa.DebugRef:
		default:
			return nil, false
		}
	}
	ci.ok = true
	return ci.ents, true
}

type constMapInfo struct {
	ents [][2]*ssa.Const
	ok   bool
}

func (x *X) storeGlobal(s *State, g *ssa.Global, v Val) {
	name := g.Pkg.Pkg.Path() + "." + g.Name()
	if name == modKeeper+".EnableAddAllowedBidder" {
		s.ghost["EnableAddAllowedBidder"] = v
		return
	}
	x.fail("store to global %s", name)
}

var errClasses = map[string]string{}

func (V *Verifier) errClass(name string) string {
	if c, ok := errClasses[name]; ok {
		return c
	}
	c := fmt.Sprint(100 + len(errClasses))
	errClasses[name] = c
	return c
}
