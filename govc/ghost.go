package main

// Ghost state: the module store (collections of the Keeper), the bank, the community pool, the block time and a
// small effect log. Only extern models (extern_*.go) read and write it; contracts refer to it by name.

import (
	"fmt"
	"go/types"
	"sort"
	"strings"
)

// GMap is a store collection: curried arrays over the key components.
type GMap struct {
	Name   string
	KSorts []string
	Dom    string // (Array K1 (Array K2 Bool))
	Val    Val    // leaves (Array K1 (Array K2 X))
}

// GPartial is a GMap applied to a prefix of its key.
type GPartial struct {
	M    *GMap
	Keys []string
}

func (g *GMap) wrap(so string) string {
	for i := len(g.KSorts) - 1; i >= 0; i-- {
		so = arrSort(g.KSorts[i], so)
	}
	return so
}

func (g *GMap) index(ev *Ev, k string) Val { return GPartial{g, nil}.index(ev, k) }

func (p GPartial) index(ev *Ev, k string) Val {
	keys := append(append([]string{}, p.Keys...), k)
	if len(keys) < len(p.M.KSorts) {
		return GPartial{p.M, keys}
	}
	return p.M.rec(keys)
}

func (g *GMap) rec(keys []string) GRec {
	d := g.Dom
	for _, k := range keys {
		d = sSel(d, k)
	}
	v := g.Val
	for _, k := range keys {
		v = selV(v, k)
	}
	return GRec{Present: d, V: v}
}

// set returns the map after writing v at keys.
func (g *GMap) set(keys []string, v Val) *GMap {
	n := &GMap{Name: g.Name, KSorts: g.KSorts}
	n.Dom = storeNested(g.Dom, keys, "true")
	n.Val = zipLeaves(g.Val, v, func(a, b Sc) Val { return Sc{T: storeNested(a.T, keys, b.T), Sort: a.Sort} })
	return n
}

func storeNested(arr string, keys []string, v string) string {
	if len(keys) == 1 {
		return sStore(arr, keys[0], v)
	}
	return sStore(arr, keys[0], storeNested(sSel(arr, keys[0]), keys[1:], v))
}

func (g *GMap) equal(x *X, o *GMap) string {
	cs := []string{sEq(g.Dom, o.Dom)}
	var la, lb []leaf
	leaves(g.Val, "", &la)
	leaves(o.Val, "", &lb)
	for i := range la {
		cs = append(cs, sEq(la[i].S.T, lb[i].S.T))
	}
	return sAnd(cs...)
}

func (g *GMap) fresh(x *X, s *State, prefix string) *GMap {
	n := &GMap{Name: g.Name, KSorts: g.KSorts}
	n.Dom = x.sym(prefix+g.Name+".dom", g.wrap("Bool"))
	n.Val = mapLeaves(g.Val, func(sc Sc) Val {
		so := x.sortOfTerm(sc.T, sc.Sort)
		return Sc{T: x.sym(prefix+g.Name, so), Sort: so}
	})
	return n
}

// ghostVarNames in a fixed order (used by frame checks and havoc).
var ghostVarNames = []string{"Auction", "Bid", "AllowedBidder", "VestingQueue", "BidSeq", "MatchedBidsLen", "AuctionSeq", "Params",
	"Bal", "Pool", "BlockTime", "Clock", "ExternOK", "HookOK", "HookN", "HookT", "SetT", "XferN", "XferT", "EventN", "EnableAddAllowedBidder", "HookArgs", "LastMatchTotal", "LastMatchPrice", "LastAllocHas", "LastAlloc", "LastRefundHas", "LastRefund"}

func (V *Verifier) lookupType(name string) types.Type {
	obj := V.typesPkg().Scope().Lookup(name)
	if obj == nil {
		panic("type not found: " + name)
	}
	return obj.Type()
}

// auctionRecord builds the union record of an auction below the given array wrap.
func (x *X) auctionRecord(s *State, prefix string, wrap wrapFn) St {
	V := x.V
	rec := St{map[string]Val{}}
	rec.F["Kind"] = Sc{T: x.sym(prefix+".Kind", wrap("Int")), Sort: wrap("Int")}
	rec.F["Base"] = x.mk(s, prefix+".Base", V.lookupType("BaseAuction"), wrap, true)
	for _, tn := range []string{"FixedPriceAuction", "BatchAuction"} {
		st := V.lookupType(tn).Underlying().(*types.Struct)
		for i := 0; i < st.NumFields(); i++ {
			f := st.Field(i)
			if f.Name() == "BaseAuction" {
				continue
			}
			rec.F[f.Name()] = x.mk(s, prefix+"."+f.Name(), f.Type(), wrap, true)
		}
	}
	return rec
}

func (V *Verifier) initGhost(x *X, s *State) {
	mkMap := func(name string, ks []string, valT types.Type) {
		g := &GMap{Name: name, KSorts: ks}
		g.Dom = x.sym(name+".dom", g.wrap("Bool"))
		if name == "Auction" {
			g.Val = x.auctionRecord(s, name, g.wrap)
		} else {
			g.Val = x.mk(s, name, valT, g.wrap, true)
		}
		s.ghost[name] = g
	}
	u64 := types.Typ[types.Uint64]
	i64 := types.Typ[types.Int64]
	mkMap("Auction", []string{"Int"}, nil)
	mkMap("Bid", []string{"Int", "Int"}, V.lookupType("Bid"))
	mkMap("AllowedBidder", []string{"Int", "Addr"}, V.lookupType("AllowedBidder"))
	mkMap("VestingQueue", []string{"Int", "Int"}, V.lookupType("VestingQueue"))
	mkMap("BidSeq", []string{"Int"}, u64)
	mkMap("MatchedBidsLen", []string{"Int"}, i64)
	s.ghost["AuctionSeq"] = Sc{T: x.sym("AuctionSeq", "Int"), Sort: "Int"}
	s.assume(rangeFact(tm(s.ghost["AuctionSeq"]), u64))
	s.ghost["Params"] = GRec{Present: x.sym("Params.present", "Bool"), V: x.mk(s, "Params", V.lookupType("Params"), idWrap, true)}
	s.ghost["Bal"] = Sc{T: x.sym("Bal", "(Array Addr (Array Str Int))"), Sort: "(Array Addr (Array Str Int))"}
	x.assumeBalNonNeg(s)
	s.ghost["Pool"] = Sc{T: x.sym("Pool", "(Array Str Int)"), Sort: "(Array Str Int)"}
	s.ghost["BlockTime"] = Sc{T: x.sym("BlockTime", "Int"), Sort: "Int"}
	s.ghost["Clock"] = Sc{T: x.sym("Clock", "Int"), Sort: "Int"}
	s.ghost["ExternOK"] = Sc{T: "true", Sort: "Bool"}
	s.ghost["HookOK"] = Sc{T: "true", Sort: "Bool"}
	s.ghost["HookN"] = Sc{T: x.sym("HookN", "(Array Int Int)"), Sort: "(Array Int Int)"}
	s.ghost["HookT"] = Sc{T: x.sym("HookT", "(Array Int Int)"), Sort: "(Array Int Int)"}
	s.ghost["SetT"] = Sc{T: x.sym("SetT", "(Array Int Int)"), Sort: "(Array Int Int)"}
	s.ghost["XferN"] = Sc{T: x.sym("XferN", "Int"), Sort: "Int"}
	s.ghost["XferT"] = Sc{T: x.sym("XferT", "Int"), Sort: "Int"}
	s.ghost["EventN"] = Sc{T: x.sym("EventN", "Int"), Sort: "Int"}
	s.ghost["EnableAddAllowedBidder"] = Sc{T: x.sym("EnableAddAllowedBidder", "Bool"), Sort: "Bool"}
	// outcome of the last batch matching (written only by "sets" clauses): total sold and clearing price
	s.ghost["LastMatchTotal"] = Sc{T: x.sym("LastMatchTotal", "Int"), Sort: "Int"}
	s.ghost["LastMatchPrice"] = Sc{T: x.sym("LastMatchPrice", "Int"), Sort: "Int"}
	// ... and who is to receive what: the allocation and refund maps of the last batch matching (domain and values)
	s.ghost["LastAllocHas"] = Sc{T: x.sym("LastAllocHas", "(Array Str Bool)"), Sort: "(Array Str Bool)"}
	s.ghost["LastAlloc"] = Sc{T: x.sym("LastAlloc", "(Array Str Int)"), Sort: "(Array Str Int)"}
	s.ghost["LastRefundHas"] = Sc{T: x.sym("LastRefundHas", "(Array Str Bool)"), Sort: "(Array Str Bool)"}
	s.ghost["LastRefund"] = Sc{T: x.sym("LastRefund", "(Array Str Int)"), Sort: "(Array Str Int)"}
	// last arguments received by the listeners of each hook method (fresh = "whatever was passed before")
	ha := St{map[string]Val{}}
	if it, ok := V.lookupType("FundraisingHooks").Underlying().(*types.Interface); ok {
		for i := 0; i < it.NumMethods(); i++ {
			m := it.Method(i)
			sig := m.Type().(*types.Signature)
			rec := St{map[string]Val{}}
			for j := 1; j < sig.Params().Len(); j++ {
				p := sig.Params().At(j)
				if _, isMap := p.Type().Underlying().(*types.Map); isMap {
					continue
				}
				rec.F[p.Name()] = x.mk(s, "HookArgs."+m.Name()+"."+p.Name(), p.Type(), idWrap, true)
			}
			ha.F[m.Name()] = rec
		}
	}
	s.ghost["HookArgs"] = ha
}

// collection ordinals for SetT
var collOrd = map[string]int{"Auction": 1, "Bid": 2, "AllowedBidder": 3, "VestingQueue": 4, "BidSeq": 5, "MatchedBidsLen": 6, "AuctionSeq": 7, "Params": 8}

// hook method ordinals for HookN/HookT
var hookOrd = map[string]int{"BeforeFixedPriceAuctionCreated": 1, "AfterFixedPriceAuctionCreated": 2, "BeforeBatchAuctionCreated": 3,
	"AfterBatchAuctionCreated": 4, "BeforeAuctionCanceled": 5, "BeforeBidPlaced": 6, "BeforeBidModified": 7,
	"BeforeAllowedBiddersAdded": 8, "BeforeAllowedBidderUpdated": 9, "BeforeSellingCoinsAllocated": 10}

func (x *X) tick(s *State) string {
	c := tm(s.ghost["Clock"])
	n := sApp("+", c, "1")
	s.ghost["Clock"] = Sc{T: n, Sort: "Int"}
	return n
}

// mkAuction creates a symbolic AuctionI parameter: union object + base object + symbolic kind.
func (x *X) mkAuction(s *State, prefix string) Val {
	rec := x.auctionRecord(s, prefix, idWrap)
	return x.auctionFromRecord(s, rec, tm(rec.F["Kind"]))
}

func (x *X) auctionFromRecord(s *State, rec St, kind string) Val {
	baseID := x.newID()
	s.objs[baseID] = rec.F["Base"]
	outer := St{map[string]Val{"BaseAuction": Ptr{baseID, nil}}}
	for k, v := range rec.F {
		if k != "Kind" && k != "Base" {
			outer.F[k] = v
		}
	}
	id := x.newID()
	s.objs[id] = outer
	return Iface{V: Ptr{id, nil}, Kind: kind}
}

// auctionToRecord reads the union record back from an AuctionI value.
func (x *X) auctionToRecord(s *State, iv Iface, like St) St {
	p, ok := iv.V.(Ptr)
	if !ok || p.Obj == 0 {
		x.fail("AuctionI value without an object")
	}
	outer := pathGet(s.objs[p.Obj], p.Path).(St)
	rec := St{map[string]Val{}}
	rec.F["Kind"] = Sc{T: iv.Kind, Sort: "Int"}
	bp, ok := outer.F["BaseAuction"].(Ptr)
	if !ok || bp.Obj == 0 {
		x.emit(s, "nopanic", "nopanic.nilbase@"+x.site(s), nil, "false", "auction with nil BaseAuction")
		s.dead = true
		return like
	}
	rec.F["Base"] = x.flat(s, pathGet(s.objs[bp.Obj], bp.Path))
	for k, v := range like.F {
		if k == "Kind" || k == "Base" {
			continue
		}
		if ov, has := outer.F[k]; has {
			rec.F[k] = x.flat(s, ov)
		} else {
			// a field of the other concrete type: irrelevant for this kind; the record keeps what it had there
			rec.F[k] = v
		}
	}
	return rec
}

func (V *Verifier) auctionKind(t types.Type) string {
	s := t.String()
	switch {
	case strings.HasSuffix(s, "types.FixedPriceAuction"):
		return "1"
	case strings.HasSuffix(s, "types.BatchAuction"):
		return "2"
	}
	return ""
}

func (V *Verifier) implementsAuction(t types.Type) bool { return V.auctionKind(t) != "" }

// ghostFuncs are functions usable in contracts that need the evaluator state.
func (V *Verifier) initGhostFuncs() {
	V.ghostFuncs = map[string]func(ev *Ev, args []Val) Val{
		// domOf(M, k...): the presence array of a store map below a key prefix
		"domOf": func(ev *Ev, a []Val) Val {
			g, ok := a[0].(*GMap)
			if !ok {
				ev.errf("domOf needs a store map")
			}
			d := g.Dom
			so := g.wrap("Bool")
			for _, k := range a[1:] {
				d = sSel(d, tm(k))
				so = elemSort(so)
			}
			return Sc{T: d, Sort: so}
		},
		// bal(addr, denom)
		"bal": func(ev *Ev, a []Val) Val {
			return intV(sSel(sSel(tm(ev.cur.ghost["Bal"]), tm(a[0])), tm(a[1])))
		},
		"pool": func(ev *Ev, a []Val) Val { return intV(sSel(tm(ev.cur.ghost["Pool"]), tm(a[0]))) },
		"hookN": func(ev *Ev, a []Val) Val {
			return intV(sSel(tm(ev.cur.ghost["HookN"]), fmt.Sprint(hookOrd[hookName(ev, a[0])])))
		},
		"hookT": func(ev *Ev, a []Val) Val {
			return intV(sSel(tm(ev.cur.ghost["HookT"]), fmt.Sprint(hookOrd[hookName(ev, a[0])])))
		},
		"setT": func(ev *Ev, a []Val) Val {
			return intV(sSel(tm(ev.cur.ghost["SetT"]), fmt.Sprint(collOrd[hookName(ev, a[0])])))
		},
		"hookArg": func(ev *Ev, a []Val) Val {
			st := ev.cur.ghost["HookArgs"].(St)
			m, ok := st.F[hookName(ev, a[0])]
			if !ok {
				ev.errf("hook %s was not called on this path", hookName(ev, a[0]))
			}
			return m.(St).F[hookName(ev, a[1])]
		},
		// hookArgsAre("Method", v1, v2, ...): the listener of Method last received exactly these values (map arguments skipped with _)
		"hookArgsAre": func(ev *Ev, a []Val) Val {
			m := hookName(ev, a[0])
			st := ev.cur.ghost["HookArgs"].(St).F[m].(St)
			it := ev.x.V.lookupType("FundraisingHooks").Underlying().(*types.Interface)
			var cs []string
			for i := 0; i < it.NumMethods(); i++ {
				if it.Method(i).Name() != m {
					continue
				}
				sig := it.Method(i).Type().(*types.Signature)
				if sig.Params().Len()-1 != len(a)-1 {
					ev.errf("hookArgsAre(%s): %d values for %d parameters", m, len(a)-1, sig.Params().Len()-1)
				}
				for j := 1; j < sig.Params().Len(); j++ {
					rv, ok := st.F[sig.Params().At(j).Name()]
					if !ok {
						continue
					}
					cs = append(cs, ev.equal(rv, ev.x.flat(ev.cur, a[j])))
				}
			}
			return boolV(sAnd(cs...))
		},
		// hookOthersUnchanged("Method", old(HookN), old(HookT), old(HookArgs)): every other hook's call count, call time and
		// recorded arguments are what they were
		"hookOthersUnchanged": func(ev *Ev, a []Val) Val {
			m := hookName(ev, a[0])
			ord := fmt.Sprint(hookOrd[m])
			i := ev.x.bound("h", "Int")
			cs := []string{fmt.Sprintf("(forall ((%s Int)) (=> (not (= %s %s)) (and (= (select %s %s) (select %s %s)) (= (select %s %s) (select %s %s)))))",
				i, i, ord, tm(ev.cur.ghost["HookN"]), i, tm(a[1]), i, tm(ev.cur.ghost["HookT"]), i, tm(a[2]), i)}
			curA, oldA := ev.cur.ghost["HookArgs"].(St), a[3].(St)
			var names []string
			for k := range curA.F {
				names = append(names, k)
			}
			sort.Strings(names)
			for _, k := range names {
				if k != m {
					cs = append(cs, ev.x.eqV(curA.F[k], oldA.F[k]))
				}
			}
			return boolV(sAnd(cs...))
		},
		// coins(c, denom): amount of denom in a Coins value
		"coins": func(ev *Ev, a []Val) Val { return intV(sSel(tm(a[0]), tm(a[1]))) },
	}
}

func hookName(ev *Ev, v Val) string {
	sc, ok := v.(Sc)
	if !ok || sc.Sort != "Str" {
		ev.errf("expected a string literal")
	}
	n, ok := ev.x.V.strName[sc.T]
	if !ok {
		ev.errf("expected a string literal")
	}
	return n
}

// assumeBalNonNeg: the bank never holds a negative balance (part of the bank model, A7).
func (x *X) assumeBalNonNeg(s *State) {
	a, d := x.bound("a", "Addr"), x.bound("d", "Str")
	b := tm(s.ghost["Bal"])
	s.assume(fmt.Sprintf("(forall ((%s Addr) (%s Str)) (! (>= (select (select %s %s) %s) 0) :pattern ((select (select %s %s) %s))))", a, d, b, a, d, b, a, d))
}

// sortOfTerm infers the SMT sort of a term (slice length leaves do not carry their sort).
func (x *X) sortOfTerm(t, fallback string) string {
	e, err := parseSx(t)
	if err != nil {
		return fallback
	}
	so, err := sortOfSx(e, x.symSort)
	if err != nil {
		return fallback
	}
	return so
}
