#!/bin/sh
# usage: mut.sh <repo-relative-file> <python-regex> <replacement> -- <govc args...>
# Runs govc on an in-memory mutant (overlay) of one file; nothing is written to /repo.
set -e
f=$1; pat=$2; rep=$3; shift 3; [ "$1" = "--" ] && shift
d=$(mktemp -d /var/tmp/mut.XXXXXX); trap 'rm -rf $d' EXIT
python3 - "$f" "$pat" "$rep" "$d/mut.go" <<'PY'
import re,sys
src=open('/repo/'+sys.argv[1]).read()
new,n=re.subn(sys.argv[2],sys.argv[3],src,count=1)
if n!=1: sys.exit("mutation did not apply")
open(sys.argv[4],'w').write(new)
PY
${GOVC:-/verif/bin/govc} "$@" --overlay /repo/$f=$d/mut.go
