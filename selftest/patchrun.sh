#!/bin/sh
# usage: patchrun.sh <patch.diff> -- <govc args...>
# Runs govc on the repository with a patch applied IN MEMORY (overlay files); nothing is written to /repo.
set -e
p=$(readlink -f "$1"); shift; [ "$1" = "--" ] && shift
d=$(mktemp -d /var/tmp/patchrun.XXXXXX); trap 'rm -rf $d' EXIT
ov=""
for f in $(grep '^+++ b/' "$p" | sed 's|^+++ b/||'); do
  mkdir -p "$d/$(dirname $f)"
  if [ -f "/repo/$f" ]; then cp "/repo/$f" "$d/$f"; else : > "$d/$f"; fi
done
(cd $d && patch -s -p1 < "$p")
for f in $(grep '^+++ b/' "$p" | sed 's|^+++ b/||'); do ov="$ov --overlay /repo/$f=$d/$f"; done
${GOVC:-/verif/bin/govc} "$@" $ov
