package keeper_test

import (
	"time"

	"cosmossdk.io/math"
	sdk "github.com/cosmos/cosmos-sdk/types"
)

// Dust worth bid at the top price: worth 5 @ 10 converts to 0 coins at price 10, so "something
// matched" is false at 10 although the demand fits; the binary search then never looks at price 1,
// where 5/1 + 100 = 105 <= 1000 fits. Clearing price must be 1 and 105 coins must be sold.
func (s *KeeperTestSuite) TestZZCanaryC03DustBid() {
	t0 := s.ctx.BlockTime()
	a := s.createBatchAuction(s.addr(0), math.LegacyOneDec(), math.LegacyMustNewDecFromStr("0.1"),
		sdk.NewInt64Coin("denom1", 1000), "denom2", nil, 0, math.LegacyMustNewDecFromStr("0.2"),
		t0.Add(-time.Hour), t0.Add(time.Hour), true)
	s.placeBidBatchWorth(a.Id, s.addr(1), math.LegacyNewDec(10), sdk.NewInt64Coin("denom2", 5), math.NewInt(1000), true)
	s.placeBidBatchMany(a.Id, s.addr(2), math.LegacyNewDec(1), sdk.NewInt64Coin("denom1", 100), math.NewInt(1000), true)
	auction, err := s.keeper.Auction.Get(s.ctx, a.Id)
	s.Require().NoError(err)
	mInfo, err := s.keeper.CalculateBatchAllocation(s.ctx, auction)
	s.Require().NoError(err)
	s.Require().Equal("105", mInfo.TotalMatchedAmount.String())
	s.Require().True(mInfo.MatchedPrice.Equal(math.LegacyNewDec(1)))
	s.Require().Equal("5", mInfo.AllocationMap[s.addr(1).String()].String())
	s.Require().Equal("100", mInfo.AllocationMap[s.addr(2).String()].String())
}
