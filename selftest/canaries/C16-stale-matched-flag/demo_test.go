package keeper_test

import (
	"time"

	"cosmossdk.io/collections"
	"cosmossdk.io/math"
	sdk "github.com/cosmos/cosmos-sdk/types"
)

// A bid matched in a provisional round and outbid in the final one must not stay flagged as matched.
func (s *KeeperTestSuite) TestZZCanaryC16StaleMatchedFlag() {
	t0 := s.ctx.BlockTime()
	a := s.createBatchAuction(s.addr(0), math.LegacyOneDec(), math.LegacyMustNewDecFromStr("0.1"),
		sdk.NewInt64Coin("denom1", 100), "denom2", nil, 2, math.LegacyMustNewDecFromStr("0.2"),
		t0.Add(-time.Hour), t0.Add(time.Hour), true)
	b1 := s.placeBidBatchMany(a.Id, s.addr(1), math.LegacyNewDec(1), sdk.NewInt64Coin("denom1", 100), math.NewInt(100), true)
	auction, err := s.keeper.Auction.Get(s.ctx, a.Id)
	s.Require().NoError(err)
	_, err = s.keeper.CalculateBatchAllocation(s.ctx, auction) // provisional round: b1 wins
	s.Require().NoError(err)
	got, _ := s.keeper.Bid.Get(s.ctx, collections.Join(a.Id, b1.Id))
	s.Require().True(got.IsMatched)

	b2 := s.placeBidBatchMany(a.Id, s.addr(2), math.LegacyNewDec(2), sdk.NewInt64Coin("denom1", 100), math.NewInt(100), true)
	mInfo, err := s.keeper.CalculateBatchAllocation(s.ctx, auction) // final round: b2 takes everything at price 2
	s.Require().NoError(err)
	s.Require().Equal(int64(1), mInfo.MatchedLen)
	s.Require().True(mInfo.AllocationMap[s.addr(1).String()].IsZero())
	got2, _ := s.keeper.Bid.Get(s.ctx, collections.Join(a.Id, b2.Id))
	s.Require().True(got2.IsMatched)
	got, _ = s.keeper.Bid.Get(s.ctx, collections.Join(a.Id, b1.Id))
	s.Require().False(got.IsMatched, "bid 1 received nothing in the final matching but is still flagged as matched")
}
