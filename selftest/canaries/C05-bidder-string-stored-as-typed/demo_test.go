package keeper_test

// Demonstration of a genuine defect of the unchanged code (found by a seeding sub-agent, masked until then by an
// unsound axiom of the verifier: "a valid address string is the canonical one"): bech32 also accepts the all-upper-case
// spelling of an address. PlaceBid stored msg.Bidder as typed, while every comparison uses AccAddress.String()
// (lower case). Consequences: (C05/C06) the cumulative allowance of a fixed-price auction is never charged for bids
// placed under the upper-case spelling; (C07) the settlement of a batch auction dereferences a nil Int for such a bid
// and BeginBlocker panics.

import (
	"strings"
	"time"

	"cosmossdk.io/math"
	sdk "github.com/cosmos/cosmos-sdk/types"

	"github.com/tendermint/fundraising/x/fundraising/types"
)

func (s *KeeperTestSuite) TestZZFindingUppercaseBidderBypassesAllowance() {
	t0 := s.ctx.BlockTime()
	a := s.createFixedPriceAuction(s.addr(0), math.LegacyOneDec(), sdk.NewInt64Coin("denom1", 1000), "denom2", nil,
		t0.Add(-time.Hour), t0.Add(time.Hour), true)
	bidder := s.addr(1)
	s.Require().NoError(s.addAllowedBidder(a.Id, bidder, math.NewInt(100)))
	s.fundAddr(bidder, sdk.NewCoins(sdk.NewInt64Coin("denom2", 1000)))
	upper := strings.ToUpper(bidder.String())
	msg := &types.MsgPlaceBid{AuctionId: a.Id, Bidder: upper, BidType: types.BidTypeFixedPrice, Price: math.LegacyOneDec(), Coin: sdk.NewInt64Coin("denom2", 100)}
	s.Require().NoError(msg.ValidateBasic())
	_, err := s.keeper.PlaceBid(s.ctx, msg)
	s.Require().NoError(err)
	_, err = s.keeper.PlaceBid(s.ctx, msg)
	s.Require().Error(err, "the second bid of 100 exceeds the allowance of 100 and must be rejected")
}

func (s *KeeperTestSuite) TestZZFindingUppercaseBidderHaltsSettlement() {
	t0 := s.ctx.BlockTime()
	a := s.createBatchAuction(s.addr(0), math.LegacyOneDec(), math.LegacyMustNewDecFromStr("0.1"), sdk.NewInt64Coin("denom1", 1000), "denom2", nil,
		0, math.LegacyMustNewDecFromStr("0.2"), t0.Add(-time.Hour), t0.Add(time.Hour), true)
	bidder := s.addr(1)
	s.Require().NoError(s.addAllowedBidder(a.Id, bidder, math.NewInt(1000)))
	s.fundAddr(bidder, sdk.NewCoins(sdk.NewInt64Coin("denom2", 1000)))
	msg := &types.MsgPlaceBid{AuctionId: a.Id, Bidder: strings.ToUpper(bidder.String()), BidType: types.BidTypeBatchWorth, Price: math.LegacyOneDec(), Coin: sdk.NewInt64Coin("denom2", 100)}
	s.Require().NoError(msg.ValidateBasic())
	_, err := s.keeper.PlaceBid(s.ctx, msg)
	s.Require().NoError(err)
	s.ctx = s.ctx.WithBlockTime(t0.Add(2 * time.Hour))
	s.Require().NotPanics(func() { s.Require().NoError(s.keeper.BeginBlocker(s.ctx)) })
}
