package keeper_test

import (
	"time"

	"cosmossdk.io/math"
	sdk "github.com/cosmos/cosmos-sdk/types"

	fundraising "github.com/tendermint/fundraising/x/fundraising/module"
	"github.com/tendermint/fundraising/x/fundraising/types"
)

// A batch auction that went into an extended round past its first release time must still export a valid genesis.
func (s *KeeperTestSuite) TestZZCanaryC15ExtendedAuctionValidates() {
	t0 := s.ctx.BlockTime()
	end := t0.Add(time.Hour)
	a := s.createBatchAuction(s.addr(0), math.LegacyOneDec(), math.LegacyMustNewDecFromStr("0.1"),
		sdk.NewInt64Coin("denom1", 100), "denom2",
		[]types.VestingSchedule{{ReleaseTime: end.Add(time.Hour), Weight: math.LegacyOneDec()}},
		3, math.LegacyMustNewDecFromStr("0.05"), t0.Add(-time.Hour), end, true)
	s.placeBidBatchMany(a.Id, s.addr(1), math.LegacyNewDec(3), sdk.NewInt64Coin("denom1", 60), math.NewInt(100), true)
	s.ctx = s.ctx.WithBlockTime(end.Add(time.Minute))
	s.Require().NoError(s.keeper.BeginBlocker(s.ctx))
	auction, err := s.keeper.Auction.Get(s.ctx, a.Id)
	s.Require().NoError(err)
	s.Require().Equal(types.AuctionStatusStarted, auction.GetStatus())
	s.Require().Len(auction.GetEndTimes(), 2, "the auction is in an extended round")
	exported, err := fundraising.ExportGenesis(s.ctx, s.keeper)
	s.Require().NoError(err)
	s.Require().NoError(exported.Validate())
}
