package keeper_test

import (
	"cosmossdk.io/collections"
	"cosmossdk.io/math"

	"github.com/tendermint/fundraising/testutil/testutil/simapp"
	fundraising "github.com/tendermint/fundraising/x/fundraising/module"
	"github.com/tendermint/fundraising/x/fundraising/types"
)

// An allow-list entry added through the keeper API with a foreign AuctionId field must still be re-imported under the
// auction it was stored under.
func (s *KeeperTestSuite) TestZZCanaryC15AllowedBidderKey() {
	now := s.ctx.BlockTime()
	a := s.createFixedPriceAuction(s.addr(0), parseDec("1.0"), parseCoin("1000000denom1"), "denom2",
		[]types.VestingSchedule{}, now.AddDate(0, 0, -1), now.AddDate(0, 1, 0), true)
	s.Require().NoError(s.keeper.AddAllowedBidders(s.ctx, a.GetId(), []types.AllowedBidder{
		{AuctionId: 7, Bidder: s.addr(1).String(), MaxBidAmount: math.NewInt(1000)},
	}))
	_, err := s.keeper.AllowedBidder.Get(s.ctx, collections.Join(a.GetId(), s.addr(1)))
	s.Require().NoError(err)

	exported, err := fundraising.ExportGenesis(s.ctx, s.keeper)
	s.Require().NoError(err)
	s.Require().NoError(exported.Validate())
	app2, err := simapp.New("chain-c15-import")
	s.Require().NoError(err)
	ctx2 := app2.BaseApp.NewContext(false).WithBlockTime(now)
	s.Require().NoError(fundraising.InitGenesis(ctx2, app2.FundraisingKeeper, *exported))
	_, err = app2.FundraisingKeeper.AllowedBidder.Get(ctx2, collections.Join(a.GetId(), s.addr(1)))
	s.Require().NoError(err, "allowed bidder of auction %d lost by export/import", a.GetId())
}

