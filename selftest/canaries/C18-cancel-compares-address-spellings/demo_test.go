package keeper_test

// Demonstration of a genuine defect of the unchanged code: CancelAuction compared the canonical (lower-case) spelling
// of the stored auctioneer with the message's string, so the auctioneer signing under the equally valid upper-case
// bech32 spelling of the same address was refused ("only the auctioneer can cancel").

import (
	"strings"
	"time"

	"cosmossdk.io/math"
	sdk "github.com/cosmos/cosmos-sdk/types"

	"github.com/tendermint/fundraising/x/fundraising/types"
)

func (s *KeeperTestSuite) TestZZFindingUppercaseAuctioneerCanCancel() {
	t0 := s.ctx.BlockTime()
	a := s.createFixedPriceAuction(s.addr(0), math.LegacyOneDec(), sdk.NewInt64Coin("denom1", 1000), "denom2", nil,
		t0.Add(time.Hour), t0.Add(2*time.Hour), true)
	msg := &types.MsgCancelAuction{Auctioneer: strings.ToUpper(s.addr(0).String()), AuctionId: a.Id}
	s.Require().NoError(msg.ValidateBasic())
	s.Require().NoError(s.keeper.CancelAuction(s.ctx, msg), "the auctioneer cancels a waiting auction")
}
