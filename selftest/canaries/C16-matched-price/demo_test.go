package keeper_test

import (
	"time"

	"cosmossdk.io/math"
	sdk "github.com/cosmos/cosmos-sdk/types"

	"github.com/tendermint/fundraising/x/fundraising/types"
)

// After settlement the batch auction must publish the clearing price that was used.
func (s *KeeperTestSuite) TestZZCanaryC16MatchedPrice() {
	t0 := s.ctx.BlockTime()
	a := s.createBatchAuction(s.addr(0), math.LegacyOneDec(), math.LegacyMustNewDecFromStr("0.1"),
		sdk.NewInt64Coin("denom1", 100), "denom2", nil, 0, math.LegacyMustNewDecFromStr("0.2"),
		t0.Add(-time.Hour), t0.Add(time.Hour), true)
	s.placeBidBatchMany(a.Id, s.addr(1), math.LegacyNewDec(3), sdk.NewInt64Coin("denom1", 60), math.NewInt(100), true)
	s.ctx = s.ctx.WithBlockTime(t0.Add(2 * time.Hour))
	s.Require().NoError(s.keeper.BeginBlocker(s.ctx))
	auction, err := s.keeper.Auction.Get(s.ctx, a.Id)
	s.Require().NoError(err)
	s.Require().Equal(types.AuctionStatusFinished, auction.GetStatus())
	s.Require().Equal("60", s.getBalance(s.addr(1), "denom1").Amount.String())
	s.Require().True(auction.(*types.BatchAuction).MatchedPrice.Equal(math.LegacyNewDec(3)),
		"published matched price %s, clearing price used 3", auction.(*types.BatchAuction).MatchedPrice)
}
