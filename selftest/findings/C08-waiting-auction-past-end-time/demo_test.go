package keeper_test

// Open finding (C08): a waiting auction meets a block whose time has passed its start AND its end time. The literal
// property ("settles at the first block at or after its current end time; bids only while open") wants it settled in that
// block; the code opens it there, accepts bids at a block time after the end time, and settles one block later.

import (
	"time"

	"cosmossdk.io/math"
	sdk "github.com/cosmos/cosmos-sdk/types"

	"github.com/tendermint/fundraising/x/fundraising/types"
)

func (s *KeeperTestSuite) TestZZFindingWaitingAuctionPastItsEndTime() {
	t0 := s.ctx.BlockTime()
	a := s.createFixedPriceAuction(s.addr(0), math.LegacyOneDec(), sdk.NewInt64Coin("denom1", 1000), "denom2", nil,
		t0.Add(time.Hour), t0.Add(2*time.Hour), true)
	s.ctx = s.ctx.WithBlockTime(t0.Add(3 * time.Hour))
	s.Require().NoError(s.keeper.BeginBlocker(s.ctx))
	got, err := s.keeper.Auction.Get(s.ctx, a.Id)
	s.Require().NoError(err)
	s.Require().NotEqual(types.AuctionStatusStarted, got.GetStatus(), "the end time has passed: the auction must not be open after this block")
}
