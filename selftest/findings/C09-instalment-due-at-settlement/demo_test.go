package keeper_test

// Open finding (C09): one block passes both the end time of an auction and the release time of its first instalment.
// The literal property ("paid in the first block at or after its release time") wants the instalment paid in that block;
// the code creates it unreleased at settlement and pays it one block later.

import (
	"time"

	"cosmossdk.io/math"
	sdk "github.com/cosmos/cosmos-sdk/types"

	"github.com/tendermint/fundraising/x/fundraising/types"
)

func (s *KeeperTestSuite) TestZZFindingInstalmentDueAtSettlement() {
	t0 := s.ctx.BlockTime()
	vs := []types.VestingSchedule{{ReleaseTime: t0.Add(2 * time.Hour), Weight: math.LegacyOneDec()}}
	a := s.createFixedPriceAuction(s.addr(0), math.LegacyOneDec(), sdk.NewInt64Coin("denom1", 1000), "denom2", vs,
		t0.Add(-time.Hour), t0.Add(time.Hour), true)
	s.placeBidFixedPrice(a.Id, s.addr(1), math.LegacyOneDec(), sdk.NewInt64Coin("denom2", 100), true)
	before := s.getBalance(s.addr(0), "denom2")
	s.ctx = s.ctx.WithBlockTime(t0.Add(3 * time.Hour)) // past the end time and past the release time
	s.Require().NoError(s.keeper.BeginBlocker(s.ctx))
	after := s.getBalance(s.addr(0), "denom2")
	s.Require().Equal(before.Amount.AddRaw(100).String(), after.Amount.String(), "the instalment was due in this block")
}
