package keeper_test

// Open finding (C16): a fixed-price bid too small to buy one coin (1 paying coin at price 2) is accepted (as C06 asks),
// flagged as matched, and receives nothing at settlement: "flagged as matched exactly when it received coins" fails.

import (
	"time"

	"cosmossdk.io/math"
	sdk "github.com/cosmos/cosmos-sdk/types"
)

func (s *KeeperTestSuite) TestZZFindingZeroQuantityBidFlaggedMatched() {
	t0 := s.ctx.BlockTime()
	a := s.createFixedPriceAuction(s.addr(0), math.LegacyNewDec(2), sdk.NewInt64Coin("denom1", 1000), "denom2", nil,
		t0.Add(-time.Hour), t0.Add(time.Hour), true)
	s.Require().NoError(s.addAllowedBidder(a.Id, s.addr(1), math.NewInt(1000)))
	bid := s.placeBidFixedPrice(a.Id, s.addr(1), math.LegacyNewDec(2), sdk.NewInt64Coin("denom2", 1), true)
	s.Require().True(bid.ConvertToSellingAmount("denom2").IsZero())
	s.Require().False(bid.IsMatched, "a bid that buys nothing must not be published as matched")
}
