package keeper_test

import (
	"time"

	"cosmossdk.io/math"
	sdk "github.com/cosmos/cosmos-sdk/types"

	"github.com/tendermint/fundraising/testutil/testutil/simapp"
	fundraising "github.com/tendermint/fundraising/x/fundraising/module"
)

// OPEN FINDING (C15): the number of bids matched at the previous round end (MatchedBidsLen) has no genesis field. A batch
// auction exported in the middle of its extended rounds therefore behaves differently after import: the original chain
// compares the new matching with the remembered one and settles, the imported chain finds no remembered value and
// extends once more.
func (s *KeeperTestSuite) TestZZFindingC15MatchedBidsLenNotExported() {
	t0 := s.ctx.BlockTime()
	end := t0.Add(time.Hour)
	a := s.createBatchAuction(s.addr(0), math.LegacyOneDec(), math.LegacyMustNewDecFromStr("0.1"),
		sdk.NewInt64Coin("denom1", 100), "denom2", nil,
		3, math.LegacyMustNewDecFromStr("0.05"), t0.Add(-time.Hour), end, true)
	s.placeBidBatchMany(a.Id, s.addr(1), math.LegacyNewDec(3), sdk.NewInt64Coin("denom1", 40), math.NewInt(100), true)
	s.placeBidBatchMany(a.Id, s.addr(2), math.LegacyNewDec(2), sdk.NewInt64Coin("denom1", 40), math.NewInt(100), true)

	// first end time: no remembered matching, the auction goes into an extended round and remembers 2 matched bids
	s.ctx = s.ctx.WithBlockTime(end.Add(time.Minute))
	s.Require().NoError(s.keeper.BeginBlocker(s.ctx))
	n, err := s.keeper.GetLastMatchedBidsLen(s.ctx, a.Id)
	s.Require().NoError(err)
	s.Require().Equal(int64(2), n)

	exported, err := fundraising.ExportGenesis(s.ctx, s.keeper)
	s.Require().NoError(err)
	s.Require().NoError(exported.Validate())
	app2, err := simapp.New("chain-c15-matchedlen")
	s.Require().NoError(err)
	ctx2 := app2.BaseApp.NewContext(false).WithBlockTime(s.ctx.BlockTime())
	k2 := app2.FundraisingKeeper
	s.Require().NoError(fundraising.InitGenesis(ctx2, k2, *exported))
	n2, err := k2.GetLastMatchedBidsLen(ctx2, a.Id)
	s.Require().NoError(err)
	s.Require().Equal(n, n2, "remembered number of matched bids lost by export/import")
}
