#!/bin/bash
# Must-pass corpus: behaviour-preserving refactorings of the production code (written by sub-agents that saw nothing of
# /verif; each passes the repository's tests). Every one is applied IN MEMORY and the whole contract set is re-verified,
# together with the scan-only checks; any failed obligation, undecided function or scan failure is a false alarm.
# Usage: selftest/harmless.sh [name-substring]        Exit code 0 iff no entry raises an alarm.
cd /verif
export GOFLAGS=-mod=mod GOPROXY=off GOSUMDB=off GOTOOLCHAIN=local
export GOVC_EVIDENCE_DIR=$(mktemp -d /var/tmp/harmless-ev.XXXXXX)
trap 'rm -rf $GOVC_EVIDENCE_DIR' EXIT
fail=0
# obligations listed as open findings fail on the unchanged tree too: not an alarm of the refactoring
known=$(python3 -c "
import json
print('|'.join(sorted(set(e['obligation'].split('#')[-1] for e in json.load(open('/verif/known_findings.json'))['open']))))")
for d in selftest/harmless/*/; do
  name=$(basename $d); [ -n "$1" ] && [[ "$name" != *"$1"* ]] && continue
  out=$(./selftest/patchrun.sh $d/patch.diff -- verify "keeper::" "types::" "module::" 2>&1 | grep -v "^\s\s\s\s\s" | grep -v "TRUSTED" | grep -Ev "#($known)@")
  nf=$(echo "$out" | grep -c "^   \(timeout\|unknown\|sat\)")
  und=$(echo "$out" | grep -c "^UNDECIDED")
  brk=$(echo "$out" | grep -c "BROKEN\|load error\|VACUOUS")
  sc=""
  for p in C14 C20; do ./selftest/patchrun.sh $d/patch.diff -- check $p --tier quick >/dev/null 2>&1 || sc="$sc $p"; done
  if [ $nf -eq 0 ] && [ $und -eq 0 ] && [ $brk -eq 0 ] && [ -z "$sc" ]; then echo "QUIET   harmless/$name"
  else echo "ALARM   harmless/$name failed=$nf undecided=$und broken=$brk scans=[$sc]"; echo "$out" | grep "^   \(timeout\|unknown\|sat\)\|^UNDECIDED\|BROKEN\|VACUOUS" | head -5 | cut -c1-200; fail=1; fi
done
exit $fail
