#!/bin/bash
# Must-fail corpus: every canary (the reverse of a "fix:" commit), every hand-made change under selftest/handmade (written
# while closing a hole, one line of explanation in README) and every seeded change under /verif/seeded is applied
# IN MEMORY (overlay) and the check of its property must exit 1 with a VIOLATION line. Nothing is written to /repo and the
# evidence files of the real tree are not touched. Usage: selftest/run.sh [name-substring]
# Exit code 0 iff every expected catch happened (entries listed in selftest/expected_misses.txt are reported, not failed).
cd /verif
export GOVC_EVIDENCE_DIR=$(mktemp -d /var/tmp/selftest-ev.XXXXXX)
trap 'rm -rf $GOVC_EVIDENCE_DIR' EXIT
fail=0; n=0
run() { # name prop patch
  [ -n "$FILTER" ] && [[ "$1" != *"$FILTER"* ]] && return
  n=$((n+1))
  out=$(./selftest/patchrun.sh "$3" -- check "$2" --tier quick 2>&1); rc=$?
  v=$(echo "$out" | grep -c '^VIOLATION')
  first=$(echo "$out" | grep '^VIOLATION' | head -1 | sed 's/.*obligation=//' | cut -c1-110)
  if [ $rc -eq 1 ] && [ $v -ge 1 ]; then echo "CAUGHT  $1 ($2): $v violation line(s), first: $first"
  elif grep -qx "$1" selftest/expected_misses.txt 2>/dev/null; then echo "MISSED  $1 ($2): rc=$rc (listed in expected_misses.txt)"
  else echo "MISSED  $1 ($2): rc=$rc"; fail=1; fi
}
FILTER=$1
for d in selftest/canaries/*/; do name=$(basename $d); run "canary/$name" "${name%%-*}" "$d/revert.diff"; done
for d in selftest/handmade/*/; do name=$(basename $d); run "handmade/$name" "${name%%-*}" "$d/patch.diff"; done
for d in seeded/*/; do [ -f "$d/patch.diff" ] || continue; name=$(basename $d); run "seeded/$name" "${name%%-*}" "$d/patch.diff"; done
echo "corpus entries run: $n"
exit $fail
