#!/bin/bash
# usage: confirm_seeds.sh <srcdir with C??/m?/...> <outdir>
# For every seeded change: apply it in a scratch worktree of /repo, run the repository's tests of the touched packages
# (must still pass), run the demonstration with the change (must fail) and without (must pass), then run the property's
# check on the change applied in memory (expected: exit 1 with a VIOLATION line). Results: <outdir>/<id>/confirm.json
export GOFLAGS=-mod=mod GOPROXY=off GOSUMDB=off GOTOOLCHAIN=local
src=$1; out=$2; wt=/tmp/wt-seeds-$$
git -C /repo worktree add -q --detach $wt HEAD || exit 2
trap 'git -C /repo worktree remove --force '$wt' 2>/dev/null; rm -rf '$wt' /var/tmp/ev-seeds-$$' EXIT
for meta in $(find $src -name meta.json | sort); do
  d=$(dirname $meta); prop=$(basename $(dirname $d)); id=$prop-$(basename $d)
  [ -n "$ONLY" ] && [ "$ONLY" != "$id" ] && continue
  demodir=$(python3 -c "import json;print(json.load(open('$meta'))['demo_dir_in_repo'])")
  cmd=$(python3 -c "import json;print(json.load(open('$meta'))['demo_run_cmd'])")
  git -C $wt checkout -q -- . ; git -C $wt clean -fdq
  applies=true; git -C $wt apply --check $d/patch.diff 2>/dev/null || applies=false
  suite=skip; demo_with=skip; demo_without=skip
  if $applies; then
    git -C $wt apply $d/patch.diff
    pk=$(grep '^+++ b/' $d/patch.diff | sed 's|^+++ b/||' | xargs -n1 dirname | sort -u | sed 's|^|./|' | tr '\n' ' ')
    if (cd $wt && go test -vet=off -count=1 -timeout 20m $pk ./x/fundraising/... >/dev/null 2>&1); then suite=pass; else suite=fail; fi
    cp $d/*_test.go $wt/$demodir/ 2>/dev/null
    if (cd $wt && timeout 600 bash -c "$cmd" >/dev/null 2>&1); then demo_with=pass; else demo_with=fail; fi
    git -C $wt checkout -q -- .
    if (cd $wt && timeout 600 bash -c "$cmd" >/dev/null 2>&1); then demo_without=pass; else demo_without=fail; fi
  fi
  git -C $wt checkout -q -- . ; git -C $wt clean -fdq
  chk=skip; vline=""
  if $applies; then
    o=$(GOVC_EVIDENCE_DIR=/var/tmp/ev-seeds-$$ /verif/selftest/patchrun.sh $d/patch.diff -- check $prop --tier quick 2>&1); rc=$?
    chk=$rc; vline=$(echo "$o" | grep '^VIOLATION' | head -3 | tr '\n' ';')
  fi
  mkdir -p $out/$id
  python3 - "$out/$id/confirm.json" "$id" "$applies" "$suite" "$demo_with" "$demo_without" "$chk" "$vline" <<'PY'
import json,sys
json.dump({"id":sys.argv[2],"patch_applies_to_head":sys.argv[3]=="true","repo_tests_with_change":sys.argv[4],"demo_with_change":sys.argv[5],"demo_without_change":sys.argv[6],"check_exit_code":sys.argv[7],"violation_lines":sys.argv[8]},open(sys.argv[1],"w"),indent=1)
PY
  echo "$id applies=$applies suite=$suite demo_with=$demo_with demo_without=$demo_without check_rc=$chk"
done
