#!/usr/bin/env python3
# Generates /verif/MANIFEST.json from the table below (kept in one place so that level notes stay consistent).
import json, subprocess
claimed = {
 "C01": "Delta form of the escrow identity proved per entry point: each of CreateX, PlaceBid, ModifyBid, CancelAuction, ApplyVestingSchedules, ReleaseVestingPayingCoin, RefundRemainingSellingCoin, Close* changes the escrow balance by exactly the change of what the records owe (payOf = ceil, instalments sum to the proceeds), for all prices/amounts (unbounded integers) and all states satisfying Inv.",
 "C02": "Per-operation balance postconditions for every (address, denomination) cell: who pays what, who receives what, nobody else moves; fees go to the community pool; settlement drains the escrows. Settlement transfers per bidder rest on interface contracts of AllocateSellingCoin/RefundPayingCoin that are still assumed (listed in the evidence).",
 "C04": "ConvertToPayingAmount = ceil(amount*price), ConvertToSellingAmount = floor(worth/price) with the stated rounding bounds, for all 18-decimal prices and all amounts; reservation on PlaceBid/ModifyBid equals payOf. The per-bid payment bounds inside types.Match are not yet under contract.",
 "C05": "Fixed price: cumulative per-bidder cap (sum over the bidder's bids of this auction + new bid <= MaxBidAmount), remainder covers the bid, allocation = sum of the bidder's bids; allow-list entries bounded by the offer. Batch cap inside types.Match not yet under contract.",
 "C06": "ValidateFixedPriceBid accepts exactly under the documented conditions (both directions), PlaceBid decreases the remainder by exactly sellOf(bid) and never below zero, existing bids are untouched, CalculateFixedPriceAllocation allocates every stored bid in full.",
 "C07": "BeginBlocker visits every stored auction once, finished/cancelled auctions are no-ops, a per-auction error is returned at once (a nil result implies every due transition happened); no panic obligation open in the functions under contract (index, nil map, nil Int, division by zero, type assertion, negative coin, overflow). Totality given ExternOK is proved for the vesting/refund steps, not yet for the allocation loops.",
 "C08": "Exact time predicates (<= vs <), creation status, status guards of PlaceBid/ModifyBid/CancelAuction, forward-only transition relation and per-status timing facts of BeginBlocker for every auction entering the block.",
 "C09": "ApplyVestingSchedules: floor shares, remainder to the last, instalments sum to the proceeds, all unreleased; ReleaseVestingPayingCoin pays exactly the due unreleased instalments once and finishes with the last one; ValidateVestingSchedules accepts exactly valid schedules (strictly chronological, weights in (0,1] summing to 1).",
 "C10": "A bid is recorded only if the allow-list contains the bidder (PlaceBid and the three validators), no message handler except AddAllowedBidder has AllowedBidder in its proved modifies frame, and AddAllowedBidder refuses while the switch is off. The whole-program frame on the switch itself is not yet checked.",
 "C11": "ModifyBid: exact acceptance conditions (owner, open batch auction, floor, same denomination, both not lower and one higher), only price and coin change, other bids untouched, charged exactly payOf(new)-payOf(old) >= 0; PlaceBid leaves existing bids untouched.",
 "C12": "CancelAuction: exactly the auctioneer while standing by; whole escrow balance refunded, remainder zeroed, status cancelled, everything else unchanged; BeginBlocker leaves cancelled auctions untouched.",
 "C13": "CloseBatchAuction: settles when no round is left, extends when there was nothing to compare with, otherwise extends iff 1 - round18(curr/last) >= rate (the rule as the code computes it); ExtendRound appends exactly last end + period; round limit at creation; matched length recorded. The exact-rational reading of the rule (10^-18 rounding band) is not decided.",
 "C17": "All ten dispatchers and ten keeper wrappers: every listener called once in order with the received values, first error returned; call sites fire the hook once with the stored values before the record write and a veto aborts before the write.",
 "C18": "ValidateBasic of the six messages accepts exactly the well-formed ones; keeper entry points accept only under their stateful preconditions and (completeness) accept when they hold and the externs cooperate. The sentence about rejected messages leaving state unchanged is an SDK guarantee (A1) and not decided.",
 "C19": "Frames: every operation leaves other auctions' records, bids, allow-lists, instalments and counters untouched; agreed terms unchanged (sameExcept); ids assigned as old counter (+1); listings by auction are exactly the auction's entries.",
}
not_yet = {
 "C03": "the matching functions (types.Match, BidsByPrice, CalculateBatchAllocation with its sort.Search closure) are not yet under a verified contract in this commit",
 "C14": "the determinism frame scan (map-range order independence, no time.Now/rand) is not yet implemented in this commit",
 "C15": "genesis export/import/validate contracts are not yet written in this commit",
 "C16": "query handlers and the matched-flag/matched-price clauses are not yet under contract in this commit",
 "C20": "the autocli binding obligations are not yet implemented in this commit",
}
m = {"version": 1, "setup_cmd": "./setup.sh",
 "hooks": {"guard": "verif", "enable": "go/packages load with -tags verif: adds the comment-only contract files x/fundraising/{types,keeper}/zz_contracts_verif.go; no executable code is added",
   "baseline_off_cmd": "cd /repo && go test -mod=mod -vet=off -count=1 -timeout 25m ./...",
   "source_commits": subprocess.run("git -C /repo log --format=%h --grep=^verif:", shell=True, capture_output=True, text=True).stdout.split(),
   "add_only": True},
 "engines": [{"name": "govc", "path": "/verif/govc", "serves_properties": sorted(claimed), "kind_free_text": "self-written verification-condition generator for Go: symbolic execution of go/ssa against Gobra-style contracts kept in build-tagged comment files, loops cut at invariants, calls replaced by callee contracts, SMT-LIB obligations raced on z3 5.1, z3 4.8.12 and cvc5"}],
 "checks": [], "not_applicable": [], "notes": "See DESIGN.md. A check exits 1 with VIOLATION lines when an obligation generated from the current /repo tree is not discharged (or a function under contract falls outside the verifier's reach), 0 otherwise."}
for p in sorted(claimed):
    m["checks"].append({"property_id": p, "quick_cmd": "./bin/govc check %s --tier quick" % p, "thorough_cmd": "./bin/govc check %s --tier thorough" % p,
      "evidence_file": "/verif/evidence/%s.json" % p, "replay_cmd_template": "./bin/govc replay {path}", "engine": "govc",
      "level_claimed": {"category": "proof", "text": claimed[p], "design_ref": "DESIGN.md section 9 (" + p + ") and section 14"},
      "level_note": "Trusted: go/ssa translation, the govc executor and encoding, solver soundness (unsat from any one back end), extern models of cosmossdk.io/math, collections, x/bank, x/distribution (mathematical integers: 256/315-bit overflow panics not modelled), finite-sum and listing schemas (T-Sigma, T-schemas), assumptions A1-A11 of DESIGN.md section 5; every extern, inlined body and assumed contract used is enumerated in the evidence file.",
      "technique": "contract-based deductive verification: weakest-precondition style VC generation over go/ssa with contracts in build-tagged comment files, discharged by z3/cvc5"})
for p in sorted(not_yet):
    m["not_applicable"].append({"property_id": p, "reason": "not claimed yet: " + not_yet[p]})
json.dump(m, open("/verif/MANIFEST.json", "w"), indent=1)
print("claimed", len(m["checks"]), "not yet", len(m["not_applicable"]))
