#!/usr/bin/env python3
# Builds /verif/seeded/<id>/ from the sub-agent deliverables (/var/tmp/seeds/Cxx/mN) and my own confirmation runs
# (/var/tmp/seedout/<id>/confirm.json written by selftest/confirm_seeds.sh). Only changes I confirmed are kept:
# the patch applies to the current /repo HEAD, the repository's tests of the touched packages still pass with it,
# the demonstration fails with it and passes without it.
import json, os, shutil, sys, glob
import sys
src, conf, out = (sys.argv[1], sys.argv[2], "/verif/seeded") if len(sys.argv) > 2 else ("/var/tmp/seeds", "/var/tmp/seedout", "/verif/seeded")
kept, dropped = [], []
for meta in sorted(glob.glob(src + "/C*/m*/meta.json")):
    d = os.path.dirname(meta); prop = d.split("/")[-2]; sid = prop + "-" + d.split("/")[-1]
    cf = os.path.join(conf, sid, "confirm.json")
    if not os.path.exists(cf):
        dropped.append((sid, "not confirmed yet")); continue
    c = json.load(open(cf)); m = json.load(open(meta))
    ok = c["patch_applies_to_head"] and c["repo_tests_with_change"] == "pass" and c["demo_with_change"] == "fail" and c["demo_without_change"] == "pass"
    if not ok:
        dropped.append((sid, json.dumps(c))); continue
    od = os.path.join(out, sid); os.makedirs(od, exist_ok=True)
    shutil.copy(os.path.join(d, "patch.diff"), od)
    for f in glob.glob(d + "/*_test.go"):
        shutil.copy(f, os.path.join(od, os.path.basename(f).replace("_test.go", "_test.go.txt")))  # .txt: not compiled by anything under /verif
    m2 = {"property": prop, "origin": "written by an independent sub-agent that saw only the property text and a scratch worktree of /repo",
          "summary": m.get("summary"), "what_it_needs_to_manifest": m.get("what_it_needs_to_manifest"), "files_changed": m.get("files_changed"),
          "demonstration": {"files": sorted(os.path.basename(f) + ".txt" for f in glob.glob(d + "/*_test.go")), "copy_into": m.get("demo_dir_in_repo"), "run": m.get("demo_run_cmd")},
          "what_i_ran": {"script": "selftest/confirm_seeds.sh (scratch git worktree of /repo under /tmp, removed afterwards)",
                         "patch_applies_to_head": c["patch_applies_to_head"], "repo_tests_of_touched_packages_with_change": c["repo_tests_with_change"],
                         "demonstration_with_change": c["demo_with_change"], "demonstration_without_change": c["demo_without_change"],
                         "check": "./selftest/patchrun.sh seeded/%s/patch.diff -- check %s --tier quick" % (sid, prop), "check_exit_code": c["check_exit_code"],
                         "first_violation_lines": c["violation_lines"]},
          "caught": c["check_exit_code"] == "1"}
    json.dump(m2, open(os.path.join(od, "meta.json"), "w"), indent=1)
    kept.append((sid, m2["caught"]))
print("kept", len(kept), "caught", sum(1 for k in kept if k[1]), "dropped", dropped)
