/-
T-Sigma: the finite-sum facts that govc (govc/smt.go: buildQuery unfoldings, sumRelationLemmas) instantiates
in verification conditions, proved here once and for all for arbitrary integer-valued terms.

govc declares each sum function `F(params, n)` of a contract (`sum(i, lo, n, body)`) as an uninterpreted SMT
function and adds, at the ground applications that occur in a query, instances of the facts below with
`f i := body(params, i)`.  The interpretation `F(params, n) := S (body params) lo n` defined here satisfies
every one of them, so adding the instances never makes a satisfiable query unsatisfiable.

Checked by `lean` 4.33 + Mathlib (tools/check_tsigma.sh; thorough tier). Names correspond to the comments in smt.go.
-/
import Mathlib.Algebra.BigOperators.Intervals
import Mathlib.Algebra.Order.BigOperators.Group.Finset
import Mathlib.Order.Interval.Finset.Basic
import Mathlib.Tactic

open Finset

namespace TSigma

/-- the prefix sum of `f` over `[lo, n)` -/
noncomputable def S (f : ℤ → ℤ) (lo n : ℤ) : ℤ := ∑ i ∈ Ico lo n, f i

/-- unfolding, empty range: `(=> (<= n lo) (= (F n) 0))` -/
theorem DEF0 (f : ℤ → ℤ) (lo n : ℤ) (h : n ≤ lo) : S f lo n = 0 := by
  unfold S; rw [Ico_eq_empty (by omega)]; simp

/-- unfolding, one step: `(=> (> n lo) (= (F n) (+ (F (- n 1)) body(n-1))))` -/
theorem DEFS (f : ℤ → ℤ) (lo n : ℤ) (h : n > lo) : S f lo n = S f lo (n - 1) + f (n - 1) := by
  unfold S
  have hIco : Ico lo n = insert (n - 1) (Ico lo (n - 1)) := by
    ext x; simp only [mem_Ico, mem_insert]; omega
  rw [hIco, sum_insert (by simp)]; ring

theorem CONG (f g : ℤ → ℤ) (lo n : ℤ) (h : ∀ i, lo ≤ i ∧ i < n → f i = g i) : S f lo n = S g lo n := by
  unfold S; exact sum_congr rfl (fun i hi => h i (by simpa using hi))

theorem PW (f g : ℤ → ℤ) (lo n : ℤ) (h : ∀ i, lo ≤ i ∧ i < n → f i ≤ g i) : S f lo n ≤ S g lo n := by
  unfold S; exact sum_le_sum (fun i hi => h i (by simpa using hi))

theorem NONNEG (f : ℤ → ℤ) (lo n : ℤ) (h : ∀ i, lo ≤ i ∧ i < n → f i ≥ 0) : S f lo n ≥ 0 := by
  unfold S; exact sum_nonneg (fun i hi => h i (by simpa using hi))

theorem ALLZERO (f : ℤ → ℤ) (lo n : ℤ) (h : ∀ i, lo ≤ i ∧ i < n → f i = 0) : S f lo n = 0 := by
  unfold S; exact sum_eq_zero (fun i hi => h i (by simpa using hi))

/-- the sum over `[lo,n)` splits at `m` -/
theorem split (f : ℤ → ℤ) (lo m n : ℤ) (h1 : lo ≤ m) (h2 : m ≤ n) :
    S f lo n = S f lo m + ∑ i ∈ Ico m n, f i := by
  unfold S
  rw [← Ico_union_Ico_eq_Ico h1 h2, sum_union (Ico_disjoint_Ico_consecutive lo m n)]

/-- MONO: `(=> (and (<= m n) (forall i in [lo,n): body(i) >= 0)) (<= (F m) (F n)))` -/
theorem MONO (f : ℤ → ℤ) (lo m n : ℤ) (hmn : m ≤ n) (h : ∀ i, lo ≤ i ∧ i < n → f i ≥ 0) :
    S f lo m ≤ S f lo n := by
  by_cases hm : m ≤ lo
  · rw [DEF0 f lo m hm]; exact NONNEG f lo n h
  · have hlo : lo ≤ m := by omega
    rw [split f lo m n hlo hmn]
    have : 0 ≤ ∑ i ∈ Ico m n, f i :=
      sum_nonneg (fun i hi => h i (by have := mem_Ico.mp hi; omega))
    omega

/-- TAILZERO: `(=> (and (<= lo m) (<= m n) (forall i in [m,n): body(i) = 0)) (= (F m) (F n)))` -/
theorem TAILZERO (f : ℤ → ℤ) (lo m n : ℤ) (h1 : lo ≤ m) (h2 : m ≤ n) (h : ∀ i, m ≤ i ∧ i < n → f i = 0) :
    S f lo m = S f lo n := by
  rw [split f lo m n h1 h2]
  have : ∑ i ∈ Ico m n, f i = 0 := sum_eq_zero (fun i hi => h i (by simpa using hi))
  omega

/-- a sum with one position taken out -/
theorem takeOut (f : ℤ → ℤ) (lo n k : ℤ) (hk : lo ≤ k ∧ k < n) :
    S f lo n = f k + ∑ i ∈ (Ico lo n).erase k, f i := by
  unfold S; rw [add_sum_erase _ f (by simpa using hk)]

/-- UPD: the two terms differ at position `k` only -/
theorem UPD (f g : ℤ → ℤ) (lo n k : ℤ) (hk : lo ≤ k ∧ k < n)
    (h : ∀ i, lo ≤ i ∧ i < n ∧ i ≠ k → f i = g i) : S f lo n = S g lo n + (f k - g k) := by
  rw [takeOut f lo n k hk, takeOut g lo n k hk]
  have : ∑ i ∈ (Ico lo n).erase k, f i = ∑ i ∈ (Ico lo n).erase k, g i :=
    sum_congr rfl (fun i hi => by
      have h1 := mem_erase.mp hi; have h2 := mem_Ico.mp h1.2; exact h i ⟨h2.1, h2.2, h1.1⟩)
  omega

/-- PWU: pointwise `<=` except at one position gives `<=` of the sums without that position's terms -/
theorem PWU (f g : ℤ → ℤ) (lo n k : ℤ) (hk : lo ≤ k ∧ k < n)
    (h : ∀ i, lo ≤ i ∧ i < n ∧ i ≠ k → f i ≤ g i) : S f lo n - f k ≤ S g lo n - g k := by
  rw [takeOut f lo n k hk, takeOut g lo n k hk]
  have : ∑ i ∈ (Ico lo n).erase k, f i ≤ ∑ i ∈ (Ico lo n).erase k, g i :=
    sum_le_sum (fun i hi => by
      have h1 := mem_erase.mp hi; have h2 := mem_Ico.mp h1.2; exact h i ⟨h2.1, h2.2, h1.1⟩)
  omega

end TSigma

#print axioms TSigma.DEF0
#print axioms TSigma.DEFS
#print axioms TSigma.CONG
#print axioms TSigma.PW
#print axioms TSigma.NONNEG
#print axioms TSigma.ALLZERO
#print axioms TSigma.MONO
#print axioms TSigma.TAILZERO
#print axioms TSigma.UPD
#print axioms TSigma.PWU
