package keeper_test

// BOUNDED conformance check of the trusted postcondition `listing-sums-per-auction` of Keeper.GetBidsByBidder
// (x/fundraising/keeper/zz_contracts_verif.go): for every auction a, the bids of the returned listing that belong to a
// add up (in selling coins) to the sum over the dense bid ids 1..BidSeq[a] of the bids stored for that bidder. The clause
// combines the order of a whole-collection Walk with a regrouping of finite sums, which the verifier does not prove; this
// test runs the real function on the simulated application for every assignment of (auction, bidder, denomination,
// amount) to sequences of up to 4 fixed-price bids over three concurrent auctions (two of them sharing both denominations)
// and three bidders, and compares the two sums for every (auction, bidder) pair, including bidders without bids.

import (
	"fmt"
	"time"

	"cosmossdk.io/collections"
	"cosmossdk.io/math"
	sdk "github.com/cosmos/cosmos-sdk/types"

	"github.com/tendermint/fundraising/x/fundraising/types"
)

type zzListingBidShape struct {
	auction int // index into the three auctions
	bidder  int
	paying  bool // the bid is denominated in the paying coin
	amount  int64
}

func (s *KeeperTestSuite) TestZZConformanceListingSumsPerAuction() {
	var shapes []zzListingBidShape
	for a := 0; a < 3; a++ {
		for _, b := range []int{1, 2} {
			for _, p := range []bool{true, false} {
				for _, amt := range []int64{1, 7} {
					shapes = append(shapes, zzListingBidShape{a, b, p, amt})
				}
			}
		}
	}
	var lists [][]zzListingBidShape
	lists = append(lists, nil)
	for _, a := range shapes {
		lists = append(lists, []zzListingBidShape{a})
		for _, b := range shapes {
			lists = append(lists, []zzListingBidShape{a, b})
		}
	}
	n := 0
	for _, a := range shapes {
		for _, b := range shapes {
			for _, c := range shapes {
				if n%11 == 0 {
					lists = append(lists, []zzListingBidShape{a, b, c})
				}
				if n%331 == 0 {
					for _, d := range shapes {
						lists = append(lists, []zzListingBidShape{a, b, c, d})
					}
				}
				n++
			}
		}
	}
	cases, compared := 0, 0
	for li, list := range lists {
		if li%200 == 0 {
			s.SetupTest() // a fresh store now and then keeps the whole-collection walk short
		}
		t0 := s.ctx.BlockTime()
		price := math.LegacyMustNewDecFromStr("0.333333333333333333")
		var ids []uint64
		var pds []string
		for k, pd := range []string{"denom2", "denom2", "denom4"} {
			sell := "denom1"
			if k == 2 {
				sell = "denom3"
			}
			a := s.createFixedPriceAuction(s.addr(0), price, sdk.NewInt64Coin(sell, 1_000_000), pd, nil, t0.Add(-time.Hour), t0.Add(time.Hour), true)
			ids = append(ids, a.Id)
			pds = append(pds, pd)
		}
		for _, sh := range list {
			id := ids[sh.auction]
			auction, err := s.keeper.Auction.Get(s.ctx, id)
			s.Require().NoError(err)
			coin := sdk.NewInt64Coin(auction.GetSellingCoin().Denom, sh.amount)
			if sh.paying {
				coin = sdk.NewInt64Coin(auction.GetPayingCoinDenom(), sh.amount)
			}
			// a generous allowance: the helper's own allow-list entry (exactly the bid) is raised before the bid is placed
			s.fundAddr(s.addr(sh.bidder), sdk.NewCoins(sdk.NewInt64Coin(auction.GetPayingCoinDenom(), 1000)))
			s.Require().NoError(s.keeper.AllowedBidder.Set(s.ctx, collections.Join(id, s.addr(sh.bidder)), types.NewAllowedBidder(id, s.addr(sh.bidder), math.NewInt(1_000_000))))
			_, err = s.keeper.PlaceBid(s.ctx, &types.MsgPlaceBid{AuctionId: id, Bidder: s.addr(sh.bidder).String(), BidType: types.BidTypeFixedPrice, Price: price, Coin: coin})
			s.Require().NoError(err, fmt.Sprintf("bids %+v", list))
		}
		for _, b := range []int{1, 2, 3} {
			who := s.addr(b)
			listing, err := s.keeper.GetBidsByBidder(s.ctx, who)
			s.Require().NoError(err)
			for k, id := range ids {
				fromListing := math.ZeroInt()
				for _, bid := range listing {
					s.Require().Equal(who.String(), bid.Bidder)
					if bid.AuctionId == id {
						fromListing = fromListing.Add(bid.ConvertToSellingAmount(pds[k]))
					}
				}
				seq, err := s.keeper.BidSeq.Get(s.ctx, id)
				if err != nil {
					seq = 0
				}
				fromStore := math.ZeroInt()
				for i := uint64(1); i <= seq; i++ {
					bid, err := s.keeper.Bid.Get(s.ctx, collections.Join(id, i))
					s.Require().NoError(err, fmt.Sprintf("bid ids of auction %d are not dense up to %d", id, seq))
					if bid.Bidder == who.String() {
						fromStore = fromStore.Add(bid.ConvertToSellingAmount(pds[k]))
					}
				}
				s.Require().True(fromListing.Equal(fromStore), fmt.Sprintf("bids %+v: auction %d bidder %d: listing sums to %s, stored bids 1..%d sum to %s", list, id, b, fromListing, seq, fromStore))
				compared++
			}
		}
		cases++
	}
	s.T().Logf("listing sums agreed with the per-auction sums on %d bid sequences (%d comparisons; bound: up to 4 bids over 24 shapes, 3 auctions, 3 bidders)", cases, compared)
}
