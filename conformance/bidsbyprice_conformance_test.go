package types_test

// BOUNDED conformance check of the assumed contract of types.BidsByPrice (x/fundraising/types/zz_contracts_verif.go).
// BidsByPrice and SortBids use sort.Slice, which the verifier does not model; the contract is assumed at the call site
// in CalculateBatchAllocation. This test runs the real function on every list of up to 5 bids drawn from 3 prices,
// 2 bidders, both batch bid types and 2 amounts (bound: 5 bids, 24 bid shapes, 8,655,024 lists are too many, so lists
// of length 5 are sampled by a fixed stride; lengths 0..4 are exhaustive: 1 + 24 + 576 + 13,824 + 331,776 lists) and
// checks each clause of the contract. It is injected with `go test -overlay`; nothing is written to the repository.

import (
	"testing"

	"cosmossdk.io/math"
	sdk "github.com/cosmos/cosmos-sdk/types"

	"github.com/tendermint/fundraising/x/fundraising/types"
)

func conformanceShapes() []types.Bid {
	var out []types.Bid
	prices := []math.LegacyDec{math.LegacyMustNewDecFromStr("0.5"), math.LegacyMustNewDecFromStr("1"), math.LegacyMustNewDecFromStr("1.000000000000000001")}
	bidders := []string{"a", "b"}
	for _, p := range prices {
		for _, w := range bidders {
			for _, t := range []types.BidType{types.BidTypeBatchWorth, types.BidTypeBatchMany} {
				for _, amt := range []int64{1, 7} {
					out = append(out, types.Bid{AuctionId: 1, Bidder: w, Type: t, Price: p, Coin: sdk.NewInt64Coin("denom", amt)})
				}
			}
		}
	}
	return out
}

func sameBid(a, b types.Bid) bool {
	return a.Id == b.Id && a.Bidder == b.Bidder && a.Type == b.Type && a.Price.Equal(b.Price) && a.Coin.IsEqual(b.Coin) && a.AuctionId == b.AuctionId && a.IsMatched == b.IsMatched
}

func checkBidsByPriceContract(t *testing.T, in []types.Bid) {
	orig := append([]types.Bid{}, in...)
	bids := append([]types.Bid{}, in...)
	prices, book := types.BidsByPrice(bids)
	// same-bids-reordered (ids are unique, so "permutation" is "every id occurs once on both sides")
	if len(bids) != len(orig) {
		t.Fatalf("length changed")
	}
	seen := map[uint64]bool{}
	for _, b := range bids {
		if seen[b.Id] || !sameBid(b, orig[b.Id-1]) {
			t.Fatalf("not a reordering of the input: %v", in)
		}
		seen[b.Id] = true
	}
	// prices-strictly-descending, every-level-has-its-group
	if len(prices) > len(bids) {
		t.Fatalf("more levels than bids")
	}
	n := 0
	for i, p := range prices {
		if i > 0 && !prices[i-1].GT(p) {
			t.Fatalf("prices not strictly descending: %v", prices)
		}
		g, ok := book[p.String()]
		if !ok || len(g) == 0 {
			t.Fatalf("level %s without group", p)
		}
		// every-group-entry-is-a-bid-at-that-price (and one of the reordered bids)
		for _, b := range g {
			if !b.Price.Equal(p) || !sameBid(b, orig[b.Id-1]) {
				t.Fatalf("group entry is not an input bid at its price: %v", b)
			}
			n++
		}
	}
	// every-bid-is-in-the-group-of-its-price, exactly once (regrouping: sums over the book equal sums over the list)
	if n != len(orig) || len(book) != len(prices) {
		t.Fatalf("book holds %d entries in %d groups for %d bids and %d levels", n, len(book), len(orig), len(prices))
	}
	cnt := map[uint64]int{}
	for _, g := range book {
		for _, b := range g {
			cnt[b.Id]++
		}
	}
	for _, b := range orig {
		if cnt[b.Id] != 1 {
			t.Fatalf("bid %d occurs %d times in the book", b.Id, cnt[b.Id])
		}
	}
}

func TestZZConformanceBidsByPrice(t *testing.T) {
	shapes := conformanceShapes()
	total := 0
	var rec func(prefix []types.Bid, depth, max int)
	rec = func(prefix []types.Bid, depth, max int) {
		checkBidsByPriceContract(t, prefix)
		total++
		if depth == max {
			return
		}
		for _, s := range shapes {
			b := s
			b.Id = uint64(depth + 1)
			rec(append(append([]types.Bid{}, prefix...), b), depth+1, max)
		}
	}
	rec(nil, 0, 4)
	// length 5: a fixed-stride sample
	idx := 0
	var rec5 func(prefix []types.Bid, depth int)
	rec5 = func(prefix []types.Bid, depth int) {
		if depth == 5 {
			idx++
			if idx%97 == 0 {
				checkBidsByPriceContract(t, prefix)
				total++
			}
			return
		}
		for _, s := range shapes {
			b := s
			b.Id = uint64(depth + 1)
			rec5(append(append([]types.Bid{}, prefix...), b), depth+1)
		}
	}
	rec5(nil, 0)
	t.Logf("BidsByPrice contract held on %d lists (bound: <= 5 bids over 24 bid shapes)", total)
}
