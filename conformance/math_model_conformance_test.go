package types_test

// BOUNDED conformance check of the extern models of cosmossdk.io/math used by the verifier (prelude functions decMul,
// decMulTrunc, decQuo, decQuoTrunc, decCeil, decTruncInt, tdiv on raw 10^18-scaled integers). The test runs the real
// library on a grid of edge values and prints one CASE line per evaluation; govc then asks the solver whether the
// prelude definitions give the same results (they are ground terms, so this is evaluation, not proof search).
// Bound: the grid below (about 2,800 operand pairs per binary operation).

import (
	"fmt"
	"math/big"
	"testing"

	"cosmossdk.io/math"
)

func TestZZConformanceMathModel(t *testing.T) {
	S := new(big.Int).Exp(big.NewInt(10), big.NewInt(18), nil)
	var grid []*big.Int
	add := func(b *big.Int) { grid = append(grid, b, new(big.Int).Neg(b)) }
	for _, s := range []string{"0", "1", "2", "3", "7", "10", "499999999999999999", "500000000000000000", "500000000000000001", "999999999999999999",
		"1000000000000000000", "1000000000000000001", "1500000000000000000", "2500000000000000000", "3333333333333333333", "666666666666666667",
		"100000000000000000", "123456789012345678901234567890", "99999999999999999999999999", "2000000000000000000", "250000000000000000"} {
		b, _ := new(big.Int).SetString(s, 10)
		add(b)
	}
	_ = S
	dec := func(b *big.Int) math.LegacyDec { return math.LegacyNewDecFromBigIntWithPrec(b, 18) }
	n := 0
	for _, a := range grid {
		da := dec(a)
		fmt.Printf("CASE decCeil %s %s\n", a, da.Ceil().BigInt())
		fmt.Printf("CASE decTruncInt %s %s\n", a, da.TruncateInt().BigInt())
		n += 2
		for _, b := range grid {
			db := dec(b)
			fmt.Printf("CASE decMul %s %s %s\n", a, b, da.Mul(db).BigInt())
			fmt.Printf("CASE decMulTrunc %s %s %s\n", a, b, da.MulTruncate(db).BigInt())
			n += 2
			if b.Sign() != 0 {
				fmt.Printf("CASE decQuo %s %s %s\n", a, b, da.Quo(db).BigInt())
				fmt.Printf("CASE decQuoTrunc %s %s %s\n", a, b, da.QuoTruncate(db).BigInt())
				fmt.Printf("CASE tdiv %s %s %s\n", a, b, math.NewIntFromBigInt(a).Quo(math.NewIntFromBigInt(b)).BigInt())
				n += 3
			}
		}
	}
	t.Logf("printed %d evaluations of the real library", n)
}
