package keeper_test

// BOUNDED conformance check of the trusted postcondition `refunds-are-non-negative` of Keeper.CalculateBatchAllocation
// (x/fundraising/keeper/zz_contracts_verif.go): every entry of RefundMap is >= 0, and equals what the bidder reserved
// minus what the settlement charges (ReservedMatchedMap), which never exceeds the reservation. The clause combines the
// per-bid rounding bounds (ceil of price x quantity <= reservation) with a regrouping of sums over the order book, which
// the verifier does not prove; this test runs the real function on a batch auction for every single bid, every pair of
// bids and every 7th triple of bids over 36 bid shapes (2 bidders x 2 bid types x 3 prices incl. 1/3 x 3 amounts), two
// supplies and two allowances.

import (
	"fmt"
	"time"

	"cosmossdk.io/collections"
	"cosmossdk.io/math"
	sdk "github.com/cosmos/cosmos-sdk/types"

	"github.com/tendermint/fundraising/x/fundraising/types"
)

type zzRefundBidShape struct {
	bidder int
	worth  bool
	price  string
	amount int64
}

func (s *KeeperTestSuite) TestZZConformanceRefundsNonNegative() {
	var shapes []zzRefundBidShape
	for _, b := range []int{1, 2} {
		for _, w := range []bool{true, false} {
			for _, p := range []string{"0.5", "0.333333333333333333", "1.7"} {
				for _, a := range []int64{1, 7, 100} {
					shapes = append(shapes, zzRefundBidShape{b, w, p, a})
				}
			}
		}
	}
	var lists [][]zzRefundBidShape
	for _, a := range shapes {
		lists = append(lists, []zzRefundBidShape{a})
	}
	for _, a := range shapes {
		for _, b := range shapes {
			lists = append(lists, []zzRefundBidShape{a, b})
		}
	}
	n := 0
	for _, a := range shapes {
		for _, b := range shapes {
			for _, c := range shapes {
				if n%7 == 0 {
					lists = append(lists, []zzRefundBidShape{a, b, c})
				}
				n++
			}
		}
	}
	s.SetupTest()
	t0 := s.ctx.BlockTime()
	cases := 0
	for li, list := range lists {
		supply := int64(10)
		if li%2 == 1 {
			supply = 150
		}
		allowance := math.NewInt(1000)
		a := s.createBatchAuction(s.addr(0), math.LegacyOneDec(), math.LegacyMustNewDecFromStr("0.1"),
			sdk.NewInt64Coin("denom1", supply), "denom2", nil, 0, math.LegacyMustNewDecFromStr("0.2"),
			t0.Add(-time.Hour), t0.Add(time.Hour), true)
		reserved := map[string]math.Int{}
		for _, sh := range list {
			price := math.LegacyMustNewDecFromStr(sh.price)
			var bid types.Bid
			if sh.worth {
				bid = s.placeBidBatchWorth(a.Id, s.addr(sh.bidder), price, sdk.NewInt64Coin("denom2", sh.amount), allowance, true)
			} else {
				bid = s.placeBidBatchMany(a.Id, s.addr(sh.bidder), price, sdk.NewInt64Coin("denom1", sh.amount), allowance, true)
			}
			r, ok := reserved[bid.Bidder]
			if !ok {
				r = math.ZeroInt()
			}
			reserved[bid.Bidder] = r.Add(bid.ConvertToPayingAmount("denom2"))
		}
		if li%3 == 2 {
			// the allowance is lowered after the bids were accepted: the settlement caps the demand at 5
			allowance = math.NewInt(5)
			for _, sh := range list {
				s.Require().NoError(s.keeper.AllowedBidder.Set(s.ctx, collections.Join(a.Id, s.addr(sh.bidder)), types.NewAllowedBidder(a.Id, s.addr(sh.bidder), allowance)))
			}
		}
		auction, err := s.keeper.Auction.Get(s.ctx, a.Id)
		s.Require().NoError(err)
		mInfo, err := s.keeper.CalculateBatchAllocation(s.ctx, auction)
		s.Require().NoError(err)
		for w, refund := range mInfo.RefundMap {
			s.Require().False(refund.IsNegative(), fmt.Sprintf("bids %+v supply %d allowance %s: refund of %s is %s", list, supply, allowance, w, refund))
			r, ok := reserved[w]
			s.Require().True(ok, fmt.Sprintf("bids %+v: refund entry for %s, who reserved nothing", list, w))
			s.Require().True(refund.LTE(r), fmt.Sprintf("bids %+v supply %d allowance %s: refund %s of %s exceeds the reservation %s", list, supply, allowance, refund, w, r))
			if paid, has := mInfo.ReservedMatchedMap[w]; has {
				s.Require().True(refund.Equal(r.Sub(paid)), fmt.Sprintf("bids %+v: refund %s of %s is not reservation %s minus payment %s", list, refund, w, r, paid))
			}
		}
		for w := range reserved {
			_, has := mInfo.RefundMap[w]
			s.Require().True(has, fmt.Sprintf("bids %+v: %s reserved coins and has no refund entry", list, w))
		}
		cases++
	}
	s.T().Logf("refunds were non-negative and equal to reservation minus payment on %d order books (bound: up to 3 bids over 36 shapes)", cases)
}
