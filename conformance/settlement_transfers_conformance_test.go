package keeper_test

// BOUNDED conformance check of the assumed interface contracts of Keeper.AllocateSellingCoin and Keeper.RefundPayingCoin
// (x/fundraising/keeper/zz_contracts_verif.go): every bidder in the map receives exactly their amount in the respective
// denomination from the respective escrow, nobody else is touched, the escrow decreases by the total. The bodies (a Go
// map range, sort.Strings, a map of transfer records) are not verified; this test runs the real functions on every
// assignment of amounts {0, 1, 5} to three bidders (27 maps each, both functions) on the simulated application.

import (
	"fmt"
	"time"

	"cosmossdk.io/math"
	sdk "github.com/cosmos/cosmos-sdk/types"

	"github.com/tendermint/fundraising/x/fundraising/keeper"
	"github.com/tendermint/fundraising/x/fundraising/types"
)

func (s *KeeperTestSuite) TestZZConformanceSettlementTransfers() {
	amounts := []int64{0, 1, 5}
	cases := 0
	for _, refund := range []bool{false, true} {
		for _, a0 := range amounts {
			for _, a1 := range amounts {
				for _, a2 := range amounts {
					s.SetupTest()
					t0 := s.ctx.BlockTime()
					a := s.createBatchAuction(s.addr(0), math.LegacyOneDec(), math.LegacyMustNewDecFromStr("0.1"),
						sdk.NewInt64Coin("denom1", 1000), "denom2", nil, 0, math.LegacyMustNewDecFromStr("0.2"),
						t0.Add(-time.Hour), t0.Add(time.Hour), true)
					auction, err := s.keeper.Auction.Get(s.ctx, a.Id)
					s.Require().NoError(err)
					denom, escrow := "denom1", auction.GetSellingReserveAddress()
					if refund {
						denom, escrow = "denom2", auction.GetPayingReserveAddress()
						s.fundAddr(escrow, sdk.NewCoins(sdk.NewInt64Coin("denom2", 1000)))
					}
					m := map[string]math.Int{s.addr(1).String(): math.NewInt(a0), s.addr(2).String(): math.NewInt(a1), s.addr(3).String(): math.NewInt(a2)}
					mInfo := keeper.MatchingInfo{AllocationMap: map[string]math.Int{}, RefundMap: map[string]math.Int{}, ReservedMatchedMap: map[string]math.Int{}}
					for k, v := range m {
						if refund {
							mInfo.RefundMap[k], mInfo.AllocationMap[k] = v, math.ZeroInt()
						} else {
							mInfo.AllocationMap[k], mInfo.RefundMap[k] = v, math.ZeroInt()
						}
					}
					watch := []sdk.AccAddress{s.addr(1), s.addr(2), s.addr(3), s.addr(4), escrow, auction.GetPayingReserveAddress(), auction.GetSellingReserveAddress(), auction.GetVestingReserveAddress(), s.addr(0)}
					before := map[string]sdk.Coins{}
					for _, w := range watch {
						before[w.String()] = s.app.BankKeeper.GetAllBalances(s.ctx, w)
					}
					if refund {
						err = s.keeper.RefundPayingCoin(s.ctx, auction, mInfo)
					} else {
						err = s.keeper.AllocateSellingCoin(s.ctx, auction, mInfo)
					}
					s.Require().NoError(err)
					total := int64(0)
					for _, w := range watch {
						after := s.app.BankKeeper.GetAllBalances(s.ctx, w)
						want := before[w.String()]
						if amt, isBidder := m[w.String()]; isBidder {
							want = want.Add(sdk.NewCoin(denom, amt))
							total += amt.Int64()
						}
						if w.Equals(escrow) {
							continue
						}
						s.Require().True(after.Equal(want), fmt.Sprintf("refund=%v amounts=%d,%d,%d: %s holds %s, contract says %s", refund, a0, a1, a2, w, after, want))
					}
					afterEsc := s.app.BankKeeper.GetAllBalances(s.ctx, escrow)
					wantEsc := before[escrow.String()].Sub(sdk.NewCoin(denom, math.NewInt(total)))
					s.Require().True(afterEsc.Equal(wantEsc), fmt.Sprintf("refund=%v amounts=%d,%d,%d: escrow holds %s, contract says %s", refund, a0, a1, a2, afterEsc, wantEsc))
					cases++
				}
			}
		}
	}
	s.T().Logf("settlement transfer contract held on %d maps (bound: 3 bidders, amounts {0,1,5}, both functions)", cases)
	_ = types.AuctionStatusStarted
}
