#!/bin/sh
# Builds the verification-condition generator from files on disk only (offline).
set -e
cd "$(dirname "$0")/govc"
export GOFLAGS=-mod=mod GOPROXY=off GOSUMDB=off GOTOOLCHAIN=local
mkdir -p ../bin
go build -o ../bin/govc .
